/* Structured program generator + reference model (RM) + MIR text printer.
   A program is a set of functions made of structured nodes; the same tree is (1) printed as MIR text for the system
   under test and (2) evaluated directly by RM with the semantics of sem.h.  RM never sees MIR's loader, simplifier,
   inliner, interpreter or generator.  Programs are well-defined by construction (DESIGN.md 1.2):
   - every register is initialised in the prologue; pointers never flow into observable values
   - 32-bit results are re-extended before any 64-bit use; shift counts masked; divisors forced into [1,32767]
   - FP->int only under an explicit range guard; FP values stored to observable memory only when not NaN
   - memory accesses go through pointer registers with masked indexes inside regions of known size
   - loops are bounded by constants, recursion by a depth parameter, so RM's step count is bounded. */
#ifndef VP_PROG_H
#define VP_PROG_H
#include "vp.h"
#include "sem.h"
#include <float.h>

#define PG_NI 10      /* int regs i0..i9: i0..i4 general (destinations), i5..i7 loop counters, i8 scratch value, i9 scratch index/address */
#define PG_GEN 5
#define PG_ND 4       /* double regs */
#define PG_NF 2       /* float regs */
#define PG_NL 2       /* long double regs */
#define PG_NP 4       /* pointer regs: p0 = main buffer (param), p1 = module data, p2/p3 = allocas */
#define PG_BUF 256    /* bytes of every region */
#define PG_MAXFUNC 8
#define PG_MAXARGS 12 /* more than the 6 integer argument registers: stack arguments */

enum { V_I, V_D, V_F, V_L };
enum { K_REG, K_IMM, K_MEM };
typedef struct {
  int kind, vt, reg;
  rv_t imm;
  MIR_type_t mt; int base, idx, scale; int64_t disp;
  int alias; /* 0 = none, 1..PG_ZONES = alias set of the offset zone the whole access range lies in */
} opnd_t;

enum ntype { N_OP, N_IF, N_LOOP, N_SWITCH, N_CALL, N_EXT, N_RET, N_OVF, N_ALLOCA, N_IRRED, N_FPGUARD };
typedef struct node {
  enum ntype t;
  MIR_insn_code_t code;     /* N_OP / N_IF (branch code) / N_OVF (overflow insn) */
  opnd_t d, a, b;
  int n;                    /* N_LOOP: trip count; N_SWITCH: number of cases; N_CALL: callee; N_EXT: tag; N_OVF: branch kind 0..3; N_ALLOCA: preg */
  int variant;              /* N_SWITCH: 0 switch insn, 1 laddr+jmpi chain, 2 lref table; N_CALL: 0 call 1 inline; N_LOOP: 0 do-while 1 while */
  int creg;                 /* loop counter / switch selector / guard int reg */
  struct node *body[4];     /* child lists: IF then/else; LOOP body; SWITCH cases (<=4); OVF taken/not */
  opnd_t args[PG_MAXARGS]; int nargs;
  int res_i, res_d;         /* N_CALL: result regs (-1 none) */
  struct node *next;
} node_t;

typedef struct {
  int nparams; MIR_type_t ptype[PG_MAXARGS]; /* integer types incl. narrow, D, P (buffer pointer) */
  int nres; MIR_type_t rtype[2];
  node_t *body;
  int module;               /* which module the function lives in */
  int has_alloca, uses_lref;
  int frame_first; /* p2 is set only by an alloca that is the first insn (the shape c2mir emits; the inliner merges such frames) */
  int depth_param;          /* index of the recursion-depth parameter or -1 */
  int big;                  /* padded with dead code above the inline thresholds */
} func_t;

typedef struct {
  func_t f[PG_MAXFUNC]; int nf, nmodules;
  int order[PG_MAXFUNC], permuted; /* textual order of the functions (callers may precede their callees: forward declarations) */
  uint8_t data_init[PG_BUF];
  uint64_t shape; unsigned feat;
  int n_nodes, n_calls, n_inline_calls, n_loops, n_switch, n_irred, n_alloca, n_ovf, n_fp, n_narrow, n_multi_ret;
} prog_t;

/* ------------------------------------------------------------------ node pool */
#define PG_POOL 6000
static node_t pg_pool[PG_POOL]; static int pg_pool_used;
static node_t *pg_new (enum ntype t) {
  if (pg_pool_used >= PG_POOL) return NULL;
  node_t *n = &pg_pool[pg_pool_used++];
  memset (n, 0, sizeof *n); n->t = t; n->res_i = n->res_d = -1;
  return n;
}

/* ------------------------------------------------------------------ generator */
typedef struct { vp_rng_t r; prog_t *p; int fidx; int budget; int depth; int nalloca; unsigned feat; int ret_emitted; int have_last[4]; opnd_t last_mem[4]; int force_w, force_callee; } pgen_t;
#define PF_NO_LREF 1
#define PF_NO_INLINE 2
#define PF_NO_FP 4
#define PF_SINGLE_RESULT 8   /* mir2c restriction */
#define PF_NO_LD 16
#define PF_NO_IRRED 32
#define PF_NO_JMPI 64
#define PF_INLINE_BIAS 256  /* C04: more calls, callers in front of their callees, frames allocated first thing and used: what inlining rewrites */
#define PF_CONST_INIT 128   /* initialise registers with literal constants (everything constant-foldable: many unreachable blocks at -O2) */

static const int64_t pg_ints[] = {0, 1, -1, 2, 3, 7, 8, 16, 31, 32, 63, 64, 127, 128, -128, 255, 256, 32767, -32768, 65535, 65536, 2147483647LL, 2147483648LL, -2147483648LL,
                                  4294967295LL, 4294967296LL, 9223372036854775807LL, (-9223372036854775807LL - 1), 0x0123456789abcdefLL, 1000003, -77, 100};
static int64_t pg_int (pgen_t *g) { return vp_chance (&g->r, 80) ? pg_ints[vp_below (&g->r, sizeof pg_ints / sizeof pg_ints[0])] : (int64_t) vp_next (&g->r); }
static double pg_dbl (pgen_t *g) { static const double v[] = {0.0, 1.0, -1.0, 0.5, 1.5, 2.0, 3.25, 100.0, 1e10, -1e-3, 0.1, 7.0, 1024.0, 1e300, -2.5}; return v[vp_below (&g->r, sizeof v / sizeof v[0])]; }

static opnd_t pg_reg (int vt, int r) { opnd_t o; memset (&o, 0, sizeof o); o.kind = K_REG; o.vt = vt; o.reg = r; return o; }
static opnd_t pg_imm_i (int64_t v) { opnd_t o; memset (&o, 0, sizeof o); o.kind = K_IMM; o.vt = V_I; o.imm.i = v; return o; }
static opnd_t pg_imm_d (double v) { opnd_t o; memset (&o, 0, sizeof o); o.kind = K_IMM; o.vt = V_D; o.imm.d = v; return o; }
static int pg_nregs (int vt) { return vt == V_I ? PG_NI : vt == V_D ? PG_ND : vt == V_F ? PG_NF : PG_NL; }
#define PG_ARGREG 100 /* opnd_t.reg >= PG_ARGREG: the function's integer parameter a<reg-100> read in place (only ever a source) */
static opnd_t pg_rnd_reg (pgen_t *g, int vt) { /* i9 may hold an address: never a source */
  if (vt == V_I && vp_chance (&g->r, 18)) {
    const func_t *f = &g->p->f[g->fidx]; int cand[PG_MAXARGS], nc = 0;
    for (int k = 1; k < f->nparams; k++) if (f->ptype[k] != MIR_T_D && f->ptype[k] != MIR_T_P) cand[nc++] = k;
    if (nc > 0) return pg_reg (V_I, PG_ARGREG + cand[vp_below (&g->r, (uint64_t) nc)]);
  }
  return pg_reg (vt, (int) vp_below (&g->r, vt == V_I ? PG_NI - 1 : pg_nregs (vt)));
}
static opnd_t pg_gen_reg (pgen_t *g) { return pg_reg (V_I, (int) vp_below (&g->r, PG_GEN)); }

static node_t **pg_tail;
static void pg_emit (node_t *n) { if (n == NULL) return; *pg_tail = n; pg_tail = &n->next; }
static node_t *pg_op (MIR_insn_code_t c, opnd_t d, opnd_t a, opnd_t b) { node_t *n = pg_new (N_OP); if (n) { n->code = c; n->d = d; n->a = a; n->b = b; } return n; }

/* Alias sets.  Every region is PG_BUF bytes and every pointer register points at the start of some region (two of them may name the same
   region), so accesses whose offset ranges lie in different PG_BUF/PG_ZONES-byte zones never overlap whatever their bases are: such an access
   may carry the alias set of its zone (MIR: different non-zero alias sets = assumed disjoint), the others carry none. */
#define PG_ZONES 4
static void pg_set_alias (pgen_t *g, opnd_t *o) {
  int64_t lo = o->disp, hi = o->disp + (o->idx >= 0 ? 15 * o->scale : 0) + (int64_t) sem_type_size (o->mt) - 1;
  int zs = PG_BUF / PG_ZONES;
  o->alias = 0;
  if (lo / zs == hi / zs && vp_chance (&g->r, 65)) o->alias = (int) (lo / zs) + 1;
}

/* a memory operand in region `base` with a freshly masked index register (emits the masking insn) */
static opnd_t pg_mem (pgen_t *g, int vt) {
  static const MIR_type_t it[] = {MIR_T_I8, MIR_T_U8, MIR_T_I16, MIR_T_U16, MIR_T_I32, MIR_T_U32, MIR_T_I64, MIR_T_U64};
  opnd_t o; memset (&o, 0, sizeof o);
  o.kind = K_MEM; o.vt = vt;
  o.mt = vt == V_I ? it[vp_below (&g->r, 8)] : vt == V_D ? MIR_T_D : vt == V_F ? MIR_T_F : MIR_T_LD;
  int nb = 2 + (g->nalloca > 2 ? 2 : g->nalloca);
  if (g->have_last[vt] && g->last_mem[vt].base < nb && vp_chance (&g->r, 30)) { /* the address of an earlier access again: same type, or (integers) another width over the same bytes */
    o = g->last_mem[vt];
    if (vt == V_I && vp_chance (&g->r, 35)) { o.mt = it[vp_below (&g->r, 8)]; }
    pg_set_alias (g, &o);
    return o;
  }
  o.base = (int) vp_below (&g->r, nb);
  if ((g->feat & PF_INLINE_BIAS) && g->nalloca >= 1 && vp_chance (&g->r, 40)) o.base = 2; /* the function's own stack block */
  o.scale = 1 << vp_below (&g->r, 4);
  o.idx = -1;
  if (vp_chance (&g->r, 60)) { /* index = masked int reg: idx*scale <= 15*8 = 120 */
    int ir = PG_NI - 1; /* i9 is the scratch index register */
    pg_emit (pg_op (MIR_AND, pg_reg (V_I, ir), pg_rnd_reg (g, V_I), pg_imm_i (15)));
    o.idx = ir;
    o.disp = (int64_t) vp_below (&g->r, PG_BUF - 120 - 16);
  } else
    o.disp = (int64_t) vp_below (&g->r, PG_BUF - 16);
  if (o.idx < 0) { o.scale = 1; g->last_mem[vt] = o; g->have_last[vt] = 1; } /* only index-free operands are remembered: i9 does not stay put */
  pg_set_alias (g, &o);
  return o;
}
static opnd_t pg_src (pgen_t *g, int vt) {
  int p = (int) vp_below (&g->r, 100);
  if (p < 55) return pg_rnd_reg (g, vt);
  if (p < 78) { if (vt == V_I) return pg_imm_i (pg_int (g)); if (vt == V_D) return pg_imm_d (pg_dbl (g)); return pg_rnd_reg (g, vt); }
  return pg_mem (g, vt);
}
static opnd_t pg_dst (pgen_t *g, int vt) { return vp_chance (&g->r, 78) ? pg_rnd_reg (g, vt) : pg_mem (g, vt); }
/* never let the scratch index register be a destination or a loop counter */
static opnd_t pg_dst_noscratch (pgen_t *g, int vt) { opnd_t o = pg_dst (g, vt); if (vt == V_I && o.kind == K_REG) o.reg = (int) vp_below (&g->r, PG_GEN); return o; }

static void pg_stmts (pgen_t *g, node_t **where, int n);

static void pg_int_stmt (pgen_t *g) {
  static const MIR_insn_code_t b64[] = {MIR_ADD, MIR_SUB, MIR_MUL, MIR_AND, MIR_OR, MIR_XOR, MIR_EQ, MIR_NE, MIR_LT, MIR_LE, MIR_GT, MIR_GE, MIR_ULT, MIR_ULE, MIR_UGT, MIR_UGE};
  static const MIR_insn_code_t b32[] = {MIR_ADDS, MIR_SUBS, MIR_MULS, MIR_ANDS, MIR_ORS, MIR_XORS, MIR_EQS, MIR_NES, MIR_LTS, MIR_LES, MIR_GTS, MIR_GES, MIR_ULTS, MIR_ULES, MIR_UGTS, MIR_UGES};
  static const MIR_insn_code_t un[] = {MIR_MOV, MIR_EXT8, MIR_EXT16, MIR_EXT32, MIR_UEXT8, MIR_UEXT16, MIR_UEXT32, MIR_NEG, MIR_NEGS};
  int w = (int) vp_below (&g->r, 100);
  opnd_t d = pg_dst_noscratch (g, V_I);
  if (w < 40) pg_emit (pg_op (b64[vp_below (&g->r, 16)], d, pg_src (g, V_I), pg_src (g, V_I)));
  else if (w < 58) { /* 32-bit op: re-extend a register result before anything else can use its upper half */
    MIR_insn_code_t c = b32[vp_below (&g->r, 16)];
    pg_emit (pg_op (c, d, pg_src (g, V_I), pg_src (g, V_I)));
    if (d.kind == K_REG && c <= MIR_XORS) pg_emit (pg_op (vp_chance (&g->r, 50) ? MIR_EXT32 : MIR_UEXT32, d, d, d));
    else if (d.kind == K_MEM && sem_type_size (d.mt) > 4) { /* 64-bit memory destination of a 32-bit op: overwrite upper half */
      pg_pool[pg_pool_used - 1].d.mt = vp_chance (&g->r, 50) ? MIR_T_I32 : MIR_T_U32; }
  } else if (w < 70) {
    MIR_insn_code_t c = un[vp_below (&g->r, 9)];
    pg_emit (pg_op (c, d, pg_src (g, V_I), pg_src (g, V_I)));
    if (c == MIR_NEGS) { if (d.kind == K_REG) pg_emit (pg_op (MIR_EXT32, d, d, d)); else if (sem_type_size (d.mt) > 4) pg_pool[pg_pool_used - 1].d.mt = MIR_T_I32; }
  } else if (w < 82) { /* shifts with masked count */
    static const MIR_insn_code_t sh[] = {MIR_LSH, MIR_RSH, MIR_URSH, MIR_LSHS, MIR_RSHS, MIR_URSHS};
    MIR_insn_code_t c = sh[vp_below (&g->r, 6)]; int is32 = c >= MIR_LSHS && sem_is32 (c);
    opnd_t cnt;
    if (vp_chance (&g->r, 50)) cnt = pg_imm_i ((int64_t) vp_below (&g->r, is32 ? 32 : 64));
    else { cnt = pg_reg (V_I, PG_NI - 2); pg_emit (pg_op (MIR_AND, cnt, pg_rnd_reg (g, V_I), pg_imm_i (is32 ? 31 : 63))); }
    opnd_t dr = pg_reg (V_I, (int) vp_below (&g->r, PG_GEN));
    pg_emit (pg_op (c, dr, pg_src (g, V_I), cnt));
    if (is32) pg_emit (pg_op (MIR_EXT32, dr, dr, dr));
  } else { /* division: divisor forced into [1, 32767] */
    static const MIR_insn_code_t dv[] = {MIR_DIV, MIR_MOD, MIR_UDIV, MIR_UMOD, MIR_DIVS, MIR_MODS, MIR_UDIVS, MIR_UMODS};
    MIR_insn_code_t c = dv[vp_below (&g->r, 8)];
    opnd_t t = pg_reg (V_I, PG_NI - 2);
    if (vp_chance (&g->r, 35)) t = pg_imm_i ((int64_t[]){1, 2, 3, 4, 7, 8, 10, 16, 255, 256, 1000, 32767, 65536}[vp_below (&g->r, 13)]);
    else { pg_emit (pg_op (MIR_AND, t, pg_rnd_reg (g, V_I), pg_imm_i (32766))); pg_emit (pg_op (MIR_OR, t, t, pg_imm_i (1))); }
    opnd_t dr = pg_reg (V_I, (int) vp_below (&g->r, PG_GEN));
    pg_emit (pg_op (c, dr, pg_src (g, V_I), t));
    if (sem_is32 (c)) pg_emit (pg_op (MIR_EXT32, dr, dr, dr));
  }
}
static void pg_fp_stmt (pgen_t *g) {
  static const MIR_insn_code_t db[] = {MIR_DADD, MIR_DSUB, MIR_DMUL, MIR_DDIV};
  static const MIR_insn_code_t dc[] = {MIR_DEQ, MIR_DNE, MIR_DLT, MIR_DLE, MIR_DGT, MIR_DGE};
  int w = (int) vp_below (&g->r, 100);
  g->p->n_fp++;
  if (w < 35) {
    opnd_t d = pg_rnd_reg (g, V_D);
    pg_emit (pg_op (db[vp_below (&g->r, 4)], d, pg_src (g, V_D), pg_src (g, V_D)));
  } else if (w < 53) pg_emit (pg_op (dc[vp_below (&g->r, 6)], pg_reg (V_I, (int) vp_below (&g->r, PG_GEN)), pg_src (g, V_D), pg_src (g, V_D)));
  else if (w < 60) { /* any 64-bit value: exact or rounded to nearest; its sign and size are looked at straight away */
    opnd_t d = pg_rnd_reg (g, V_D), x = pg_rnd_reg (g, V_I);
    pg_emit (pg_op (vp_chance (&g->r, 50) ? MIR_I2D : MIR_UI2D, d, x, x));
    if (vp_chance (&g->r, 70)) pg_emit (pg_op (dc[vp_below (&g->r, 6)], pg_gen_reg (g), d, vp_chance (&g->r, 50) ? pg_imm_d (0.0) : pg_imm_d (9223372036854775808.0)));
  }
  else if (w < 66) { /* int -> double of a bounded value */
    opnd_t t = pg_reg (V_I, PG_NI - 2);
    pg_emit (pg_op (MIR_AND, t, pg_rnd_reg (g, V_I), pg_imm_i (0xfffff)));
    pg_emit (pg_op (vp_chance (&g->r, 50) ? MIR_I2D : MIR_UI2D, pg_rnd_reg (g, V_D), t, t));
  } else if (w < 78) { /* guarded double -> int */
    node_t *n = pg_new (N_FPGUARD);
    if (n) { n->a = pg_rnd_reg (g, V_D); n->d = pg_reg (V_I, (int) vp_below (&g->r, PG_GEN)); n->creg = PG_NI - 2; pg_emit (n); }
  } else if (w < 86 && !(g->feat & PF_NO_LD)) { /* through float and long double and back */
    opnd_t f = pg_rnd_reg (g, V_F), l = pg_rnd_reg (g, V_L), d = pg_rnd_reg (g, V_D);
    pg_emit (pg_op (MIR_D2F, f, pg_rnd_reg (g, V_D), f));
    pg_emit (pg_op (MIR_FADD, f, f, f));
    pg_emit (pg_op (MIR_F2LD, l, f, f));
    pg_emit (pg_op (MIR_LDMUL, l, l, l));
    pg_emit (pg_op (MIR_LD2D, d, l, l));
  } else if (w < 90) pg_emit (pg_op (MIR_DNEG, pg_rnd_reg (g, V_D), pg_src (g, V_D), pg_src (g, V_D)));
  else { /* store a double to observable memory only if it is not a NaN */
    node_t *n = pg_new (N_IF);
    opnd_t x = pg_rnd_reg (g, V_D);
    if (n) {
      n->code = MIR_DBEQ; n->a = x; n->b = x;
      node_t **save = pg_tail; pg_tail = &n->body[0];
      opnd_t m = pg_mem (g, V_D);   /* index masking goes inside the guarded branch */
      pg_emit (pg_op (MIR_DMOV, m, x, x));
      pg_tail = save; pg_emit (n);
    }
  }
}

static void pg_ctl_stmt (pgen_t *g) {
  int w = (int) vp_below (&g->r, 100);
  prog_t *p = g->p; func_t *f = &p->f[g->fidx];
  if (g->depth >= 3) w = 99 - (int) vp_below (&g->r, 20); /* only leaf-ish things deep inside */
  if ((g->feat & PF_INLINE_BIAS) && g->fidx > 0 && vp_chance (&g->r, 35)) w = 55; /* a call */
  if (g->force_w > 0) { w = g->force_w; g->force_w = 0; }
  if (w < 22) { /* if / if-else on an integer compare-and-branch or bt/bf */
    static const MIR_insn_code_t br[] = {MIR_BEQ, MIR_BNE, MIR_BLT, MIR_BLE, MIR_BGT, MIR_BGE, MIR_UBLT, MIR_UBGE, MIR_BEQS, MIR_BNES, MIR_BLTS, MIR_BGES, MIR_UBLTS, MIR_UBGTS, MIR_BT, MIR_BF, MIR_BTS, MIR_BFS, MIR_DBLT, MIR_DBGE, MIR_DBNE};
    node_t *n = pg_new (N_IF); if (!n) return;
    n->code = br[vp_below (&g->r, 21)];
    int fpc = n->code == MIR_DBLT || n->code == MIR_DBGE || n->code == MIR_DBNE;
    n->a = fpc ? pg_rnd_reg (g, V_D) : pg_src (g, V_I); n->b = fpc ? pg_src (g, V_D) : pg_src (g, V_I);
    if (n->a.kind == K_IMM && !fpc) n->a = pg_rnd_reg (g, V_I);
    pg_emit (n);
    g->depth++;
    pg_stmts (g, &n->body[0], (int) vp_range (&g->r, 1, 4));
    if (vp_chance (&g->r, 55)) pg_stmts (g, &n->body[1], (int) vp_range (&g->r, 1, 4));
    g->depth--;
  } else if (w < 38) { /* bounded loop */
    node_t *n = pg_new (N_LOOP); if (!n) return;
    n->n = (int) vp_range (&g->r, 1, 5); n->variant = (int) vp_below (&g->r, 3);
    n->creg = PG_NI - 3 - g->depth; /* one counter register per nesting level: i7, i6, i5 */
    if (n->variant == 2) { /* do { body } while (--c > 0 && a <rel> b): the continuation test reads loop-carried general registers */
      static const MIR_insn_code_t lb[] = {MIR_BEQ, MIR_BNE, MIR_BLT, MIR_BLE, MIR_BGT, MIR_BGE, MIR_UBLT, MIR_UBGE, MIR_BNES, MIR_BLTS, MIR_UBGTS, MIR_BT, MIR_BFS};
      n->code = lb[vp_below (&g->r, 13)]; n->a = pg_dst_noscratch (g, V_I); if (n->a.kind == K_MEM && n->a.idx >= 0) n->a = pg_gen_reg (g); n->d = pg_rnd_reg (g, V_I); n->b = vp_chance (&g->r, 60) ? pg_rnd_reg (g, V_I) : pg_imm_i (pg_int (g)); /* no memory operand: its index mask would be emitted before the loop */
    }
    p->n_loops++;
    pg_emit (n);
    g->depth++;
    pg_stmts (g, &n->body[0], (int) vp_range (&g->r, 1, 5));
    g->depth--;
  } else if (w < 48) { /* switch / jmpi dispatch */
    node_t *n = pg_new (N_SWITCH); if (!n) return;
    n->n = (int) vp_range (&g->r, 2, 4);
    n->variant = (int) vp_below (&g->r, 4); /* 3: like 1, but every label address is taken in one basic block (a local table) */
    if (n->variant == 2 && ((g->feat & PF_NO_LREF) || f->uses_lref)) n->variant = 0; /* one lref table per function at most */
    if ((n->variant == 1 || n->variant == 3) && (g->feat & PF_NO_JMPI)) n->variant = 0;
    if (n->variant == 2) f->uses_lref = 1;
    n->creg = PG_NI - 2; n->a = pg_rnd_reg (g, V_I);
    p->n_switch++;
    pg_emit (n);
    g->depth++;
    for (int k = 0; k < n->n; k++) pg_stmts (g, &n->body[k], (int) vp_range (&g->r, 1, 3));
    g->depth--;
  } else if (w < 60 && g->fidx > 0) { /* call a lower-numbered function */
    node_t *n = pg_new (N_CALL); if (!n) return;
    n->n = (int) vp_below (&g->r, g->fidx);
    if (g->force_callee > 0) { n->n = g->force_callee - 1; g->force_callee = 0; }
    n->variant = !(g->feat & PF_NO_INLINE) && vp_chance (&g->r, 40);
    if (!n->variant && vp_chance (&g->r, 40)) n->variant = 2; /* through the function's address in a register: never inlined, always the public address */
    func_t *cf = &p->f[n->n];
    n->nargs = cf->nparams;
    for (int k = 0; k < cf->nparams; k++) {
      if (cf->ptype[k] == MIR_T_P) { n->args[k] = pg_reg (V_I, -1); n->args[k].base = (int) vp_below (&g->r, 2 + (g->nalloca > 2 ? 2 : g->nalloca)); } /* pass a region pointer */
      else if (cf->ptype[k] == MIR_T_D) n->args[k] = vp_chance (&g->r, 70) ? pg_rnd_reg (g, V_D) : pg_imm_d (pg_dbl (g));
      else if (k == cf->depth_param) n->args[k] = pg_imm_i ((int64_t) vp_below (&g->r, 4)); /* callee's recursion depth */
      else n->args[k] = vp_chance (&g->r, 70) ? pg_rnd_reg (g, V_I) : pg_imm_i (pg_int (g));
    }
    for (int k = 0; k < cf->nres; k++) if (cf->rtype[k] == MIR_T_D) n->res_d = (int) vp_below (&g->r, PG_ND); else n->res_i = (int) vp_below (&g->r, PG_GEN);
    p->n_calls++; if (n->variant == 1) p->n_inline_calls++;
    if (vp_chance (&g->r, 20)) { /* the call is the first insn after a branch that is always taken: once the optimiser has folded the branch, the
                                    call starts a block that no label introduces any more */
      node_t *gd = pg_new (N_IF);
      if (gd) {
        pg_emit (pg_op (MIR_MOV, pg_reg (V_I, PG_NI - 2), pg_imm_i (1), pg_imm_i (1))); gd->code = MIR_BT; gd->a = pg_reg (V_I, PG_NI - 2); gd->b = gd->a; pg_emit (gd);
        node_t **save = pg_tail; pg_tail = &gd->body[0]; pg_emit (n); pg_tail = save;
        return;
      }
    }
    pg_emit (n);
  } else if (w < 68) { /* external logging call */
    node_t *n = pg_new (N_EXT); if (!n) return;
    n->n = (int) vp_below (&g->r, 1000); n->a = pg_rnd_reg (g, V_I); n->b = vp_chance (&g->r, 50) ? pg_rnd_reg (g, V_I) : pg_imm_i (pg_int (g));
    n->res_i = (int) vp_below (&g->r, PG_GEN);
    pg_emit (n);
  } else if (w < 76) { /* overflow insn + branch */
    static const MIR_insn_code_t ov[] = {MIR_ADDO, MIR_SUBO, MIR_MULO, MIR_ADDOS, MIR_SUBOS, MIR_MULOS, MIR_UMULO, MIR_UMULOS};
    node_t *n = pg_new (N_OVF); if (!n) return;
    n->code = ov[vp_below (&g->r, 8)];
    int sgn = n->code == MIR_MULO || n->code == MIR_MULOS, uns = n->code == MIR_UMULO || n->code == MIR_UMULOS;
    n->n = sgn ? (int) vp_below (&g->r, 2) : uns ? 2 + (int) vp_below (&g->r, 2) : (int) vp_below (&g->r, 4);
    n->d = pg_reg (V_I, (int) vp_below (&g->r, PG_GEN)); n->a = vp_chance (&g->r, 15) ? pg_imm_i (pg_int (g)) : pg_rnd_reg (g, V_I); n->b = vp_chance (&g->r, 60) ? pg_rnd_reg (g, V_I) : pg_imm_i (pg_int (g));
    if (vp_chance (&g->r, 15)) n->b = pg_imm_i ((int64_t) vp_below (&g->r, 4) - 1); /* -1, 0, 1, 2: what simplifiers rewrite (x * 1, x + 0) must keep the flag */
    if (vp_chance (&g->r, 12)) { /* both operands constant: the insn can be folded, its flag can not be forgotten - half of the time with a zero result and overflow */
      n->a = pg_imm_i (pg_int (g)); n->b = pg_imm_i (pg_int (g));
      if (vp_chance (&g->r, 50)) {
        int is32 = sem_is32 (n->code), mul = n->code == MIR_MULO || n->code == MIR_MULOS || n->code == MIR_UMULO || n->code == MIR_UMULOS, sub = n->code == MIR_SUBO || n->code == MIR_SUBOS;
        int64_t x = mul ? (is32 ? 65536 : 4294967296LL) : is32 ? -2147483648LL : (-9223372036854775807LL - 1);
        n->a = pg_imm_i (x); n->b = pg_imm_i (sub && !mul ? -x : x); /* 2^k * 2^k, MIN + MIN: the result wraps to zero (MIN - -MIN as well for 32 bits; for 64 bits -MIN is MIN: result 0, no overflow) */
      }
    }
    n->variant = !sem_is32 (n->code) && vp_chance (&g->r, 40); /* a register move between the insn and the branch */
    p->n_ovf++;
    if (vp_chance (&g->r, 25)) { /* the preceding insn leaves the machine's overflow flag set: only the overflow insn itself may decide the branch */
      pg_emit (pg_op (MIR_MOV, pg_reg (V_I, PG_NI - 2), pg_imm_i (9223372036854775807LL), pg_imm_i (0)));
      pg_emit (pg_op (MIR_ADD, pg_reg (V_I, PG_NI - 2), pg_reg (V_I, PG_NI - 2), pg_imm_i (1)));
    }
    pg_emit (n);
    g->depth++;
    pg_stmts (g, &n->body[0], (int) vp_range (&g->r, 1, 2));
    if (vp_chance (&g->r, 50)) pg_stmts (g, &n->body[1], (int) vp_range (&g->r, 1, 2));
    g->depth--;
  } else if (w < 82 && g->nalloca < 2 && g->depth == 0) { /* top-level alloca of constant or variable size */
    node_t *n = pg_new (N_ALLOCA); if (!n) return;
    n->n = 2 + g->nalloca; n->variant = vp_chance (&g->r, 35); /* 1: size computed in a register */
    g->nalloca++; f->has_alloca = 1; p->n_alloca++;
    pg_emit (n);
  } else if (w < 90 && f->nres > 0 && g->depth > 0) { /* early return */
    node_t *n = pg_new (N_RET); if (!n) return;
    n->a = vp_chance (&g->r, 45) ? pg_rnd_reg (g, V_I) : pg_imm_i (pg_int (g)); n->b = pg_rnd_reg (g, V_D); /* mostly wide constants: out of range of a narrow result type */
    p->n_multi_ret++;
    pg_emit (n);
    g->ret_emitted = 1;
  } else if (w < 93 && !(g->feat & PF_NO_IRRED) && g->depth < 2) { /* irreducible two-entry loop */
    node_t *n = pg_new (N_IRRED); if (!n) return;
    n->n = (int) vp_range (&g->r, 2, 5); n->creg = PG_NI - 3 - g->depth; n->a = pg_rnd_reg (g, V_I);
    p->n_irred++;
    pg_emit (n);
    g->depth++;
    pg_stmts (g, &n->body[0], (int) vp_range (&g->r, 1, 3));
    pg_stmts (g, &n->body[1], (int) vp_range (&g->r, 1, 3));
    g->depth--;
  } else pg_int_stmt (g);
}

/* One location loaded, (a block boundary,) overwritten, other locations of the same, of another and of no alias set stored, the location loaded
   again: the orderings that memory availability, store forwarding and dead store elimination have to respect when alias sets differ. */
static void pg_block_boundary (pgen_t *g) { /* a guarded register increment: what follows is in another block */
  node_t *n = pg_new (N_IF); if (!n) return;
  n->code = vp_chance (&g->r, 50) ? MIR_BT : MIR_BF; n->a = pg_rnd_reg (g, V_I); n->b = n->a;
  pg_emit (n);
  node_t **save = pg_tail; pg_tail = &n->body[0];
  pg_emit (pg_op (MIR_ADD, pg_gen_reg (g), pg_rnd_reg (g, V_I), pg_imm_i (1)));
  pg_tail = save;
}
static void pg_alias_chain (pgen_t *g) {
  static const MIR_type_t it[] = {MIR_T_I8, MIR_T_U8, MIR_T_I16, MIR_T_U16, MIR_T_I32, MIR_T_U32, MIR_T_I64, MIR_T_U64};
  int zs = PG_BUF / PG_ZONES, nb = 2 + (g->nalloca > 2 ? 2 : g->nalloca);
  opnd_t m, r1 = pg_gen_reg (g), r2 = pg_gen_reg (g);
  memset (&m, 0, sizeof m); m.kind = K_MEM; m.vt = V_I; m.mt = it[vp_below (&g->r, 8)]; m.base = (int) vp_below (&g->r, (uint64_t) nb); m.idx = -1; m.scale = 1;
  int za = (int) vp_below (&g->r, PG_ZONES);
  m.disp = za * zs + (int64_t) vp_below (&g->r, (uint64_t) zs - 8); m.alias = vp_chance (&g->r, 85) ? za + 1 : 0;
  if (vp_chance (&g->r, 12)) { /* the same location loaded four times, with and without its alias set in turn, in up to four blocks: every load but the first is redundant */
    opnd_t ma = m; ma.alias = m.alias ? 0 : za + 1;
    opnd_t acc = pg_gen_reg (g);
    pg_emit (pg_op (MIR_MOV, acc, m, m));
    for (int k = 1; k < 4; k++) {
      if (vp_chance (&g->r, 50)) pg_block_boundary (g);
      opnd_t rk = pg_reg (V_I, PG_NI - 2);
      pg_emit (pg_op (MIR_MOV, rk, k & 1 ? ma : m, m));
      pg_emit (pg_op (k & 1 ? MIR_ADD : MIR_XOR, acc, acc, rk));
    }
    return;
  }
  pg_emit (pg_op (MIR_MOV, r1, m, m));
  if (vp_chance (&g->r, 60)) pg_block_boundary (g); /* the stores start a new block */
  int ns = (int) vp_range (&g->r, 1, 4), own = (int) vp_below (&g->r, (uint64_t) ns);
  if (vp_chance (&g->r, 15)) { /* the loaded value stored over a partly overlapping location of the same width and then back: the last store is not redundant */
    opnd_t d = m;
    d.disp = m.disp + (vp_chance (&g->r, 50) ? -1 : 1) * (int64_t) vp_range (&g->r, 1, (int64_t) sem_type_size (m.mt) > 1 ? (int64_t) sem_type_size (m.mt) - 1 : 1);
    if (d.disp < 0) d.disp = 0;
    if (d.disp > PG_BUF - 8) d.disp = PG_BUF - 8;
    pg_set_alias (g, &d);
    pg_emit (pg_op (MIR_MOV, d, r1, d));
    pg_emit (pg_op (MIR_MOV, m, r1, m));
    ns = 0;
  }
  for (int k = 0; k < ns; k++) {
    opnd_t d = m;
    if (k != own || vp_chance (&g->r, 20)) { /* another location: same zone, another zone, or anywhere without an alias set */
      int z = vp_chance (&g->r, 35) ? za : (int) vp_below (&g->r, PG_ZONES);
      d.mt = it[vp_below (&g->r, 8)]; d.base = (int) vp_below (&g->r, (uint64_t) nb);
      d.disp = z * zs + (int64_t) vp_below (&g->r, (uint64_t) zs - 8); d.alias = vp_chance (&g->r, 30) ? 0 : z + 1;
      if (vp_chance (&g->r, 25)) { /* a location that overlaps the loaded one partly (unaligned, another width) */
        d.disp = m.disp + (int64_t) vp_below (&g->r, 15) - 7;
        if (d.disp < 0) d.disp = 0;
        if (d.disp > PG_BUF - 8) d.disp = PG_BUF - 8;
        pg_set_alias (g, &d);
      }
    } else if (vp_chance (&g->r, 25)) d.alias = 0;
    pg_emit (pg_op (MIR_MOV, d, k == own && vp_chance (&g->r, 35) ? r1 : pg_rnd_reg (g, V_I), d)); /* sometimes the loaded value is stored back */
  }
  if (vp_chance (&g->r, 60)) pg_block_boundary (g); /* the second load is in a block after the stores */
  pg_emit (pg_op (MIR_MOV, r2, m, m));
  pg_emit (pg_op (vp_chance (&g->r, 50) ? MIR_ADD : MIR_XOR, pg_gen_reg (g), r1, r2));
}

static void pg_stmts (pgen_t *g, node_t **where, int n) {
  node_t **save = pg_tail;
  pg_tail = where;
  g->ret_emitted = 0;
  for (int i = 0; i < n && g->budget > 0 && !g->ret_emitted; i++) {
    g->budget--;
    int w = (int) vp_below (&g->r, 100);
    if (w < 50) pg_int_stmt (g);
    else if (w < 64 && !(g->feat & PF_NO_FP)) pg_fp_stmt (g);
    else if (w < 70) { opnd_t m = pg_mem (g, V_I); pg_emit (pg_op (MIR_MOV, m, pg_rnd_reg (g, V_I), m)); } /* store */
    else if (w < 74) pg_alias_chain (g);
    else pg_ctl_stmt (g);
  }
  g->ret_emitted = 0;
  pg_tail = save;
}

/* The module data region is one section of several items: `gdata` (bytes), an unnamed item of a wider integer type, an unnamed bss or
   typed item, unnamed bytes.  The layout is a function of the first data bytes (no generator randomness is consumed): returns 0 = one item,
   1 = typed middle pieces, 2 = the third piece is bss; c[] = the three cut offsets. */
static int pg_data_cuts (const prog_t *p, int c[3]) {
  const uint8_t *d = p->data_init;
  if (d[0] % 4 == 3) return 0;
  c[0] = 8 + d[1] % 100; c[1] = c[0] + 1 + d[2] % 60; c[2] = c[1] + 8 + d[3] % 40;
  return d[0] % 4 == 0 ? 2 : 1;
}
static void pg_gen_prog (prog_t *p, uint64_t seed, long idx, unsigned feat, int max_modules) {
  pgen_t G, *g = &G;
  memset (p, 0, sizeof *p); memset (g, 0, sizeof G);
  pg_pool_used = 0;
  g->r = vp_case_rng (seed, 0x5052, (uint64_t) idx); g->p = p; g->feat = feat; p->feat = feat;
  p->nf = (int) vp_range (&g->r, (feat & PF_INLINE_BIAS) ? 3 : 1, getenv ("VP_MAXF") ? atoi (getenv ("VP_MAXF")) : PG_MAXFUNC);
  p->nmodules = (int) vp_range (&g->r, 1, max_modules);
  for (int i = 0; i < PG_BUF; i++) p->data_init[i] = (uint8_t) vp_next (&g->r);
  { int c[3]; if (pg_data_cuts (p, c) == 2) memset (p->data_init + c[1], 0, (size_t) (c[2] - c[1])); } /* a bss piece holds zeros */
  static const MIR_type_t nt[] = {MIR_T_I64, MIR_T_I64, MIR_T_I64, MIR_T_I8, MIR_T_U8, MIR_T_I16, MIR_T_U16, MIR_T_I32, MIR_T_U32, MIR_T_U64};
  /* nest shape (C04): a chain of small functions, each with its frame allocated first, writing its frame, calling the next one twice and
     reading its frame back; callers stand in front of their callees, so that one inlining pass nests several levels */
  int nest = (feat & PF_INLINE_BIAS) && vp_chance (&g->r, 30);
  if (nest && p->nf > 5) p->nf = 5;
  for (int fi = 0; fi < p->nf; fi++) {
    func_t *f = &p->f[fi];
    g->fidx = fi; g->depth = 0; g->nalloca = 0; memset (g->have_last, 0, sizeof g->have_last);
    f->frame_first = nest || vp_chance (&g->r, (feat & PF_INLINE_BIAS) ? 65 : 35); if (f->frame_first) { g->nalloca = 1; f->has_alloca = 1; p->n_alloca++; }
    f->module = nest ? 0 : (int) vp_below (&g->r, p->nmodules);
    int last = fi == p->nf - 1;
    /* the last function is the entry: i64 entry (p buf, i64 a, i64 b) */
    if (last) { f->nparams = 3; f->ptype[0] = MIR_T_P; f->ptype[1] = MIR_T_I64; f->ptype[2] = MIR_T_I64; f->nres = 1; f->rtype[0] = MIR_T_I64; f->depth_param = -1; }
    else {
      f->nparams = (int) vp_range (&g->r, 1, PG_MAXARGS);
      f->ptype[0] = MIR_T_P;
      for (int k = 1; k < f->nparams; k++) { f->ptype[k] = vp_chance (&g->r, 20) && !(feat & PF_NO_FP) ? MIR_T_D : nt[vp_below (&g->r, 10)]; if (f->ptype[k] != MIR_T_I64 && f->ptype[k] != MIR_T_D) p->n_narrow++; }
      f->nres = (feat & PF_SINGLE_RESULT) ? (int) vp_below (&g->r, 2) : (int) vp_below (&g->r, 3);
      f->rtype[0] = nt[vp_below (&g->r, 10)]; if (f->rtype[0] != MIR_T_I64) p->n_narrow++;
      f->rtype[1] = MIR_T_D;
      if ((feat & PF_NO_FP) && f->nres == 2) f->nres = 1;
      f->depth_param = -1;
      if (vp_chance (&g->r, 25) && f->nparams >= 2 && f->ptype[1] != MIR_T_D) { f->depth_param = 1; f->ptype[1] = MIR_T_I64; }
    }
    g->budget = (int) vp_range (&g->r, 2, getenv ("VP_BUDGET") ? atoi (getenv ("VP_BUDGET")) : (feat & PF_INLINE_BIAS) && vp_chance (&g->r, 60) ? 12 : 40); /* small bodies nest deeper before the growth limit */
    f->big = !last && !nest && vp_chance (&g->r, 20);
    if (nest) {
      node_t **save = pg_tail; pg_tail = &f->body;
      opnd_t m; memset (&m, 0, sizeof m); m.kind = K_MEM; m.vt = V_I; m.mt = MIR_T_I64; m.base = 2; m.idx = -1; m.scale = 1; m.disp = 8 * (int64_t) vp_below (&g->r, 30);
      g->budget = 3; pg_int_stmt (g);
      pg_emit (pg_op (MIR_MOV, m, pg_gen_reg (g), m));
      for (int c = 0; c < 2 && fi > 0; c++) { g->force_w = 55; g->force_callee = fi; /* = callee fi - 1 */ pg_ctl_stmt (g); if (vp_chance (&g->r, 50)) pg_int_stmt (g); }
      pg_emit (pg_op (MIR_ADD, pg_reg (V_I, 0), pg_reg (V_I, 0), m));
      g->force_w = g->force_callee = 0; pg_tail = save;
    } else
      pg_stmts (g, &f->body, g->budget);
    p->n_nodes = pg_pool_used;
  }
  for (int i = 0; i < p->nf; i++) p->order[i] = i;
  p->permuted = vp_chance (&g->r, (feat & PF_INLINE_BIAS) ? 75 : 40);
  if (nest) { p->permuted = 1; for (int i = 0; i < p->nf; i++) p->order[i] = p->nf - 1 - i; }
  else if (p->permuted) for (int i = p->nf - 1; i > 0; i--) { int j = (int) vp_below (&g->r, (uint64_t) i + 1), x = p->order[i]; p->order[i] = p->order[j]; p->order[j] = x; }
  p->shape = vp_hash_mix (vp_hash_mix ((uint64_t) p->nf * 131 + p->n_calls * 17 + p->n_loops * 7 + p->n_switch * 5 + p->n_irred * 3 + p->n_ovf, (uint64_t) p->n_nodes), (uint64_t) p->n_fp * 1009 + p->n_alloca * 13 + p->n_narrow);
}

/* ================================================================== MIR text printer */
typedef struct { char *s; size_t len, cap; int lab; } ptxt_t;
static void P (ptxt_t *t, const char *fmt, ...) {
  va_list ap;
  if (t->len + 512 > t->cap) { t->cap = t->cap ? t->cap * 2 : 1 << 16; t->s = realloc (t->s, t->cap); }
  va_start (ap, fmt); t->len += vsnprintf (t->s + t->len, t->cap - t->len, fmt, ap); va_end (ap);
}
static const char *pg_tn (MIR_type_t t) { static const char *n[] = {"i8", "u8", "i16", "u16", "i32", "u32", "i64", "u64", "f", "d", "ld", "p"}; return n[t]; }
static void pg_print_data_piece (ptxt_t *t, const prog_t *p, const char *label, int from, int to, int tk) { /* tk: 0 u8, 1 i16, 2 u32, 3 i64 */
  static const char *tn[] = {"u8", "i16", "u32", "i64"}; static const int sz[] = {1, 2, 4, 8};
  int n = (to - from) / sz[tk];
  if (n > 0) {
    P (t, "%s%s ", label, tn[tk]);
    for (int i = 0; i < n; i++) {
      uint64_t v = 0; memcpy (&v, p->data_init + from + i * sz[tk], (size_t) sz[tk]);
      if (tk == 1) P (t, "%s%d", i ? ", " : "", (int) (int16_t) v); else if (tk == 3) P (t, "%s%lld", i ? ", " : "", (long long) (int64_t) v); else P (t, "%s%llu", i ? ", " : "", (unsigned long long) v);
    }
    P (t, "\n"); label = " ";
  }
  if (from + n * sz[tk] < to) pg_print_data_piece (t, p, label, from + n * sz[tk], to, 0); /* the rest as bytes */
}
static void pg_print_data (ptxt_t *t, const prog_t *p) {
  int c[3], k = pg_data_cuts (p, c);
  P (t, "export gdata\n");
  if (k == 0) { pg_print_data_piece (t, p, "gdata: ", 0, PG_BUF, 0); return; }
  pg_print_data_piece (t, p, "gdata: ", 0, c[0], 0);
  pg_print_data_piece (t, p, " ", c[0], c[1], 1 + p->data_init[4] % 3);
  if (k == 2) P (t, " bss %d\n", c[2] - c[1]); else pg_print_data_piece (t, p, " ", c[1], c[2], 1 + p->data_init[5] % 3);
  pg_print_data_piece (t, p, " ", c[2], PG_BUF, 0);
}

static const char pg_rc[] = {'i', 'd', 'f', 'l'};
static void pg_popnd (ptxt_t *t, const opnd_t *o) {
  if (o->kind == K_REG && o->vt == V_I && o->reg >= PG_ARGREG) P (t, "a%d", o->reg - PG_ARGREG);
  else if (o->kind == K_REG) P (t, "%c%d", pg_rc[o->vt], o->reg);
  else if (o->kind == K_IMM) { if (o->vt == V_I) P (t, "%lld", (long long) o->imm.i); else P (t, "%.17e", o->imm.d); }
  else if (o->idx >= 0) P (t, "%s:%lld(p%d, i%d, %d)", pg_tn (o->mt), (long long) o->disp, o->base, o->idx, o->scale);
  else P (t, "%s:%lld(p%d)", pg_tn (o->mt), (long long) o->disp, o->base);
  if (o->kind == K_MEM && o->alias) P (t, ":z%d", o->alias);
}
static char pg_lc[64];
static const char *pg_lower (MIR_context_t ctx, MIR_insn_code_t c) { (void) ctx; return MIR_insn_name (ctx, c); }
static int pg_unary (MIR_insn_code_t c) {
  switch (c) { case MIR_MOV: case MIR_EXT8: case MIR_EXT16: case MIR_EXT32: case MIR_UEXT8: case MIR_UEXT16: case MIR_UEXT32: case MIR_NEG: case MIR_NEGS: case MIR_DNEG: case MIR_DMOV: case MIR_FMOV: case MIR_LDMOV:
  case MIR_I2D: case MIR_UI2D: case MIR_D2I: case MIR_D2F: case MIR_F2LD: case MIR_LD2D: case MIR_F2D: case MIR_D2LD: return 1; default: return 0; }
}
static void pg_pnodes (MIR_context_t ctx, ptxt_t *t, const prog_t *p, int fi, const node_t *n);
static void pg_pret (ptxt_t *t, const func_t *f, const opnd_t *a, const opnd_t *b) {
  if (f->nres == 0) P (t, " ret\n");
  else if (f->nres == 1) { P (t, " ret "); pg_popnd (t, a); P (t, "\n"); }
  else { P (t, " ret "); pg_popnd (t, a); P (t, ", "); pg_popnd (t, b); P (t, "\n"); }
}
static void pg_pnodes (MIR_context_t ctx, ptxt_t *t, const prog_t *p, int fi, const node_t *n) {
  const func_t *f = &p->f[fi];
  for (; n != NULL; n = n->next) switch (n->t) {
    case N_OP:
      P (t, " %s ", pg_lower (ctx, n->code)); pg_popnd (t, &n->d); P (t, ", "); pg_popnd (t, &n->a);
      if (!pg_unary (n->code)) { P (t, ", "); pg_popnd (t, &n->b); }
      P (t, "\n"); break;
    case N_FPGUARD: { int l = t->lab++;
      P (t, " dlt i%d, ", n->creg); pg_popnd (t, &n->a); P (t, ", 1e15\n bf G%d_%d, i%d\n dgt i%d, ", fi, l, n->creg, n->creg); pg_popnd (t, &n->a);
      P (t, ", -1e15\n bf G%d_%d, i%d\n d2i ", fi, l, n->creg); pg_popnd (t, &n->d); P (t, ", "); pg_popnd (t, &n->a); P (t, "\nG%d_%d:\n", fi, l); break; }
    case N_IF: { int l = t->lab++;
      P (t, " %s T%d_%d, ", pg_lower (ctx, n->code), fi, l); pg_popnd (t, &n->a);
      if (n->code != MIR_BT && n->code != MIR_BF && n->code != MIR_BTS && n->code != MIR_BFS) { P (t, ", "); pg_popnd (t, &n->b); }
      P (t, "\n"); pg_pnodes (ctx, t, p, fi, n->body[1]); P (t, " jmp J%d_%d\nT%d_%d:\n", fi, l, fi, l); pg_pnodes (ctx, t, p, fi, n->body[0]); P (t, "J%d_%d:\n", fi, l); break; }
    case N_LOOP: { int l = t->lab++;
      P (t, " mov i%d, %d\n", n->creg, n->n);
      if (n->variant == 2) { P (t, "H%d_%d:\n mov ", fi, l); pg_popnd (t, &n->a); P (t, ", "); pg_popnd (t, &n->d); P (t, "\n"); } /* the test at the bottom reads the value the carried register had at the top */
      else if (n->variant) P (t, "H%d_%d:\n ble X%d_%d, i%d, 0\n", fi, l, fi, l, n->creg); else P (t, "H%d_%d:\n", fi, l);
      pg_pnodes (ctx, t, p, fi, n->body[0]);
      P (t, " sub i%d, i%d, 1\n", n->creg, n->creg);
      if (n->variant == 2) {
        P (t, " ble X%d_%d, i%d, 0\n %s H%d_%d, ", fi, l, n->creg, pg_lower (ctx, n->code), fi, l); pg_popnd (t, &n->a);
        if (n->code != MIR_BT && n->code != MIR_BFS) { P (t, ", "); pg_popnd (t, &n->b); }
        P (t, "\nX%d_%d:\n", fi, l);
      } else if (n->variant) P (t, " jmp H%d_%d\nX%d_%d:\n", fi, l, fi, l); else P (t, " bgt H%d_%d, i%d, 0\n", fi, l, n->creg);
      break; }
    case N_SWITCH: { int l = t->lab++;
      /* selector = a mod n (unsigned): 0..n-1 */
      P (t, " umod i%d, ", n->creg); pg_popnd (t, &n->a); P (t, ", %d\n", n->n);
      if (n->variant == 0) { P (t, " switch i%d", n->creg); for (int k = 0; k < n->n; k++) P (t, ", C%d_%d_%d", fi, l, k); P (t, "\n"); }
      else if (n->variant == 1) { /* compare chain selecting a label address, then jmpi */
        P (t, " laddr i%d, C%d_%d_0\n", PG_NI - 1, fi, l);
        for (int k = 1; k < n->n; k++) P (t, " bne N%d_%d_%d, i%d, %d\n laddr i%d, C%d_%d_%d\nN%d_%d_%d:\n", fi, l, k, n->creg, k, PG_NI - 1, fi, l, k, fi, l, k);
        P (t, " jmpi i%d\n", PG_NI - 1);
      } else if (n->variant == 3) {
        for (int k = 0; k < n->n; k++) P (t, " laddr q%d, C%d_%d_%d\n", k, fi, l, k);
        P (t, " mov i%d, q0\n", PG_NI - 1);
        for (int k = 1; k < n->n; k++) P (t, " bne N%d_%d_%d, i%d, %d\n mov i%d, q%d\nN%d_%d_%d:\n", fi, l, k, n->creg, k, PG_NI - 1, k, fi, l, k);
        P (t, " jmpi i%d\n", PG_NI - 1);
      } else { P (t, " mov i%d, lrt%d\n mov i%d, p:(i%d, i%d, 8)\n jmpi i%d\n", PG_NI - 1, fi, PG_NI - 1, PG_NI - 1, n->creg, PG_NI - 1); }
      for (int k = 0; k < n->n; k++) { P (t, "C%d_%d_%d:\n", fi, l, k); pg_pnodes (ctx, t, p, fi, n->body[k]); if (k + 1 < n->n) P (t, " jmp E%d_%d\n", fi, l); }
      P (t, "E%d_%d:\n", fi, l);
      if (n->variant == 2) ((node_t *) n)->res_i = l; /* remember the label number for the lref table */
      break; }
    case N_CALL: { const func_t *cf = &p->f[n->n];
      if (n->variant == 2) P (t, " mov i%d, fn%d\n call pr%d, i%d", PG_NI - 1, n->n, n->n, PG_NI - 1);
      else P (t, " %s pr%d, fn%d", n->variant ? "inline" : "call", n->n, n->n);
      for (int k = 0; k < cf->nres; k++) { if (cf->rtype[k] == MIR_T_D) P (t, ", d%d", n->res_d); else P (t, ", i%d", n->res_i); }
      for (int k = 0; k < n->nargs; k++) { P (t, ", "); if (n->args[k].kind == K_REG && n->args[k].reg < 0) P (t, "p%d", n->args[k].base); else pg_popnd (t, &n->args[k]); }
      P (t, "\n"); break; }
    case N_EXT: P (t, " call prx, ext_log, i%d, %d, ", n->res_i, n->n); pg_popnd (t, &n->a); P (t, ", "); pg_popnd (t, &n->b); P (t, "\n"); break;
    case N_RET: pg_pret (t, f, &n->a, &n->b); break;
    case N_OVF: { int l = t->lab++; static const char *br[] = {"bo", "bno", "ubo", "ubno"};
      P (t, " %s ", pg_lower (ctx, n->code)); pg_popnd (t, &n->d); P (t, ", "); pg_popnd (t, &n->a); P (t, ", "); pg_popnd (t, &n->b); P (t, "\n");
      if (n->variant) P (t, " mov i%d, i%d\n", PG_NI - 2, n->d.reg);
      P (t, " %s O%d_%d\n", br[n->n], fi, l);
      if (sem_is32 (n->code)) P (t, " ext32 i%d, i%d\n", n->d.reg, n->d.reg);
      pg_pnodes (ctx, t, p, fi, n->body[1]); P (t, " jmp Q%d_%d\nO%d_%d:\n", fi, l, fi, l);
      if (sem_is32 (n->code)) P (t, " ext32 i%d, i%d\n", n->d.reg, n->d.reg);
      pg_pnodes (ctx, t, p, fi, n->body[0]); P (t, "Q%d_%d:\n", fi, l); break; }
    case N_ALLOCA:
      if (n->variant) P (t, " and i%d, i0, 15\n add i%d, i%d, %d\n alloca p%d, i%d\n", PG_NI - 2, PG_NI - 2, PG_NI - 2, PG_BUF, n->n, PG_NI - 2);
      else P (t, " alloca p%d, %d\n", n->n, PG_BUF);
      /* defined contents: zero the region through 8-byte stores in a small loop */
      { int l = t->lab++; P (t, " mov i%d, 0\nZ%d_%d:\n mov i64:(p%d, i%d, 8), 0\n add i%d, i%d, 1\n blt Z%d_%d, i%d, %d\n", PG_NI - 1, fi, l, n->n, PG_NI - 1, PG_NI - 1, PG_NI - 1, fi, l, PG_NI - 1, PG_BUF / 8); }
      break;
    case N_IRRED: { int l = t->lab++;
      /* two entries into a cycle A <-> B, counter bounded:  if (a odd) goto B;  A: bodyA; c--; if c<=0 exit; B: bodyB; c--; if c>0 goto A; */
      P (t, " mov i%d, %d\n and i%d, ", n->creg, n->n, PG_NI - 2); pg_popnd (t, &n->a); P (t, ", 1\n bt IB%d_%d, i%d\n", fi, l, PG_NI - 2);
      P (t, "IA%d_%d:\n", fi, l); pg_pnodes (ctx, t, p, fi, n->body[0]); P (t, " sub i%d, i%d, 1\n ble IX%d_%d, i%d, 0\n", n->creg, n->creg, fi, l, n->creg);
      P (t, "IB%d_%d:\n", fi, l); pg_pnodes (ctx, t, p, fi, n->body[1]); P (t, " sub i%d, i%d, 1\n bgt IA%d_%d, i%d, 0\nIX%d_%d:\n", n->creg, n->creg, fi, l, n->creg, fi, l);
      break; }
    }
}
/* collect the lref table of function fi: labels of the (single) variant-2 switch */
static const node_t *pg_find_lref_switch (const node_t *n) {
  for (; n != NULL; n = n->next) {
    if (n->t == N_SWITCH && n->variant == 2) return n;
    for (int k = 0; k < 4; k++) { const node_t *r = pg_find_lref_switch (n->body[k]); if (r) return r; }
  }
  return NULL;
}
static void pg_proto (ptxt_t *t, const func_t *f, int fi, const char *kw) {
  P (t, "%s%d: %s ", kw[0] == 'p' ? "pr" : "fn", fi, kw);
  int first = 1;
  for (int k = 0; k < f->nres; k++) { P (t, "%s%s", first ? "" : ", ", pg_tn (f->rtype[k])); first = 0; }
  for (int k = 0; k < f->nparams; k++) { P (t, "%s%s:a%d", first ? "" : ", ", pg_tn (f->ptype[k]), k); first = 0; }
  P (t, "\n");
}
/* whole program: modules md0..; returns malloc'ed text */
static char *pg_print (MIR_context_t ctx, const prog_t *p) {
  ptxt_t T = {0}, *t = &T;
  for (int m = 0; m < p->nmodules; m++) {
    P (t, "md%d: module\n", m);
    P (t, "prx: proto i64, i64:tag, i64:a, i64:b\nimport ext_log\n");
    if (m == 0) pg_print_data (t, p);
    else P (t, "import gdata\n");
    for (int fi = 0; fi < p->nf; fi++) {
      const func_t *f = &p->f[fi];
      pg_proto (t, f, fi, "proto");
      if (f->module != m) { int used = 0; for (int fj = fi + 1; fj < p->nf; fj++) if (p->f[fj].module == m) used = 1; if (used) P (t, "import fn%d\n", fi); }
    }
    if (p->permuted) for (int fi = 0; fi < p->nf; fi++) if (p->f[fi].module == m) P (t, "forward fn%d\n", fi);
    for (int oi = 0; oi < p->nf; oi++) {
      int fi = p->order[oi];
      const func_t *f = &p->f[fi];
      if (f->module != m) continue;
      if (f->uses_lref) P (t, "forward lrt%d\n", fi);
      P (t, "export fn%d\n", fi);
      pg_proto (t, f, fi, "func");
      P (t, " local");
      for (int k = 0; k < PG_NI; k++) P (t, "%s i64:i%d", k ? "," : "", k);
      for (int k = 0; k < PG_ND; k++) P (t, ", d:d%d", k);
      for (int k = 0; k < PG_NF; k++) P (t, ", f:f%d", k);
      for (int k = 0; k < PG_NL; k++) P (t, ", ld:l%d", k);
      for (int k = 0; k < PG_NP; k++) P (t, ", i64:p%d", k);
      P (t, ", i64:q0, i64:q1, i64:q2, i64:q3\n"); /* label addresses of a local dispatch table */
      /* prologue: every register defined */
      if (f->frame_first) P (t, " alloca p2, %d\n mov i9, 0\nZF%d:\n mov i64:(p2, i9, 8), 0\n add i9, i9, 1\n blt ZF%d, i9, %d\n mov p0, a0\n mov p1, gdata\n mov p3, a0\n", PG_BUF, fi, fi, PG_BUF / 8);
      else P (t, " mov p0, a0\n mov p1, gdata\n mov p2, a0\n mov p3, a0\n");
      int ai = 0, di = 0;
      for (int k = 1; k < f->nparams; k++) { if (f->ptype[k] == MIR_T_D) { if (di < PG_ND) P (t, " dmov d%d, a%d\n", di++, k); } else if (ai < PG_NI) P (t, " mov i%d, a%d\n", ai++, k); }
      for (; ai < PG_NI; ai++) { if (p->feat & PF_CONST_INIT) P (t, " mov i%d, %d\n", ai, ai * 1000003 + 7 * fi); else P (t, " mov i%d, i64:%d(p1)\n", ai, 8 * ai + fi); } /* opaque to constant folding */
      for (; di < PG_ND; di++) P (t, " dmov d%d, %d.5\n", di, di + fi);
      for (int k = 0; k < PG_NF; k++) P (t, " fmov f%d, %d.25f\n", k, k + 1);
      for (int k = 0; k < PG_NL; k++) P (t, " ldmov l%d, %d.125L\n", k, k + 2);
      if (f->depth_param >= 0) { /* bounded self recursion: if (depth > 0 && depth < 4) r = self(depth-1 ...) */
        P (t, " ble R%d, a%d, 0\n bgt R%d, a%d, 3\n sub i%d, a%d, 1\n call pr%d, fn%d", fi, f->depth_param, fi, f->depth_param, PG_NI - 2, f->depth_param, fi, fi);
        for (int k = 0; k < f->nres; k++) P (t, f->rtype[k] == MIR_T_D ? ", d0" : ", i0");
        for (int k = 0; k < f->nparams; k++) { if (k == f->depth_param) P (t, ", i%d", PG_NI - 2); else if (k == 0) P (t, ", p0"); else if (f->ptype[k] == MIR_T_D) P (t, ", 1.5"); else P (t, ", %d", 40 + k); }
        P (t, "\nR%d:\n", fi);
      }
      if (f->big) for (int k = 0; k < 70; k++) P (t, " add i%d, i%d, %d\n xor i%d, i%d, %d\n sub i%d, i%d, %d\n", PG_NI - 2, PG_NI - 2, k + 1, PG_NI - 2, PG_NI - 2, k, PG_NI - 2, PG_NI - 2, k + 1);
      t->lab = 0;
      pg_pnodes (ctx, t, p, fi, f->body);
      opnd_t ra = pg_reg (V_I, 0), rb = pg_reg (V_D, 0);
      pg_pret (t, f, &ra, &rb);
      P (t, " endfunc\n");
      if (f->uses_lref) {
        const node_t *sw = pg_find_lref_switch (f->body);
        if (sw) for (int k = 0; k < sw->n; k++) P (t, "%s lref C%d_%d_%d\n", k == 0 ? (snprintf (pg_lc, sizeof pg_lc, "lrt%d:", fi), pg_lc) : "", fi, sw->res_i, k);
      }
    }
    P (t, "endmodule\n");
  }
  return t->s;
}

/* ================================================================== reference model */
#define RM_MAXLOG 4096
typedef struct { int64_t tag, a, b; } rm_log_t;
typedef struct {
  const prog_t *p;
  uint8_t *buf, *gdata;
  rm_log_t *log; int nlog;
  long steps; int overflow;
} rm_t;
typedef struct { int64_t a[PG_MAXARGS]; int64_t i[PG_NI]; double d[PG_ND]; float f[PG_NF]; long double l[PG_NL]; uint8_t *ptr[PG_NP]; int returned; int64_t ri; double rd; uint8_t *allocas[2]; } rm_env_t;

static int64_t rm_ext_log (rm_t *rm, int64_t tag, int64_t a, int64_t b) {
  if (rm->nlog < RM_MAXLOG) { rm->log[rm->nlog].tag = tag; rm->log[rm->nlog].a = a; rm->log[rm->nlog].b = b; }
  rm->nlog++;
  return (int64_t) ((uint64_t) a * 31u + ((uint64_t) b ^ (uint64_t) tag));
}
static int rm_oob; /* set when the reference run touches memory outside its region: a generator bug, never a finding */
static uint8_t *rm_addr (rm_env_t *e, const opnd_t *o) {
  int64_t off = o->disp + (o->idx >= 0 ? e->i[o->idx] * o->scale : 0);
  if (off < 0 || off + (int64_t) sem_type_size (o->mt) > PG_BUF) { rm_oob = 1; off = 0; }
  return e->ptr[o->base] + off;
}
static int64_t rm_geti (rm_env_t *e, const opnd_t *o) { return o->kind == K_REG ? (o->reg >= PG_ARGREG ? e->a[o->reg - PG_ARGREG] : e->i[o->reg]) : o->kind == K_IMM ? o->imm.i : sem_load_int (o->mt, rm_addr (e, o)); }
static void rm_seti (rm_env_t *e, const opnd_t *o, int64_t v) { if (o->kind == K_REG) e->i[o->reg] = v; else sem_store_int (o->mt, rm_addr (e, o), v); }
static double rm_getd (rm_env_t *e, const opnd_t *o) { if (o->kind == K_REG) return e->d[o->reg]; if (o->kind == K_IMM) return o->imm.d; double v; memcpy (&v, rm_addr (e, o), 8); return v; }
static void rm_setd (rm_env_t *e, const opnd_t *o, double v) { if (o->kind == K_REG) e->d[o->reg] = v; else memcpy (rm_addr (e, o), &v, 8); }

static void rm_call (rm_t *rm, int fi, const int64_t *ia, const double *da, uint8_t *const *pa, int64_t *ri, double *rd, int depth);

static void rm_nodes (rm_t *rm, int fi, rm_env_t *e, const node_t *n, int depth) {
  const prog_t *p = rm->p; const func_t *f = &p->f[fi];
  for (; n != NULL && !e->returned; n = n->next) {
    if (++rm->steps > 2000000) { rm->overflow = 1; e->returned = 1; return; }
    switch (n->t) {
    case N_OP: {
      MIR_insn_code_t c = n->code; int64_t r; int k, op, rel, br;
      if (sem_int3 (c, 0, 1, &r, NULL, NULL) >= 0 && !pg_unary (c)) { sem_int3 (c, rm_geti (e, &n->a), rm_geti (e, &n->b), &r, NULL, NULL); rm_seti (e, &n->d, r); }
      else if (sem_int2 (c, 0, &r) >= 0) { sem_int2 (c, rm_geti (e, &n->a), &r); rm_seti (e, &n->d, r); }
      else if (sem_fp_arith_code (c, &k, &op)) {
        if (k == 1) { rv_t a, b; a.d = rm_getd (e, &n->a); b.d = op == 4 ? 0 : rm_getd (e, &n->b); rm_setd (e, &n->d, sem_farith (1, op, a, b).d); }
        else if (k == 0) { rv_t a, b; a.f = e->f[n->a.reg]; b.f = e->f[n->b.reg]; e->f[n->d.reg] = sem_farith (0, op, a, b).f; }
        else { rv_t a, b; a.ld = e->l[n->a.reg]; b.ld = e->l[n->b.reg]; e->l[n->d.reg] = sem_farith (2, op, a, b).ld; }
      } else if (sem_fp_rel (c, &k, &rel, &br)) rm_seti (e, &n->d, sem_fcmp (rel, rm_getd (e, &n->a), rm_getd (e, &n->b)));
      else switch (c) {
        case MIR_DMOV: rm_setd (e, &n->d, rm_getd (e, &n->a)); break;
        case MIR_I2D: rm_setd (e, &n->d, (double) rm_geti (e, &n->a)); break;
        case MIR_UI2D: rm_setd (e, &n->d, (double) (uint64_t) rm_geti (e, &n->a)); break;
        case MIR_D2F: e->f[n->d.reg] = (float) rm_getd (e, &n->a); break;
        case MIR_F2LD: e->l[n->d.reg] = (long double) e->f[n->a.reg]; break;
        case MIR_LD2D: rm_setd (e, &n->d, (double) e->l[n->a.reg]); break;
        default: fprintf (stderr, "RM: unhandled opcode %d\n", (int) c); abort ();
        }
      break; }
    case N_FPGUARD: { double x = rm_getd (e, &n->a);
      e->i[n->creg] = x < 1e15; if (!e->i[n->creg]) break;
      e->i[n->creg] = x > -1e15; if (!e->i[n->creg]) break;
      rm_seti (e, &n->d, (int64_t) x); break; }
    case N_IF: { int taken, k, rel, br;
      if (sem_fp_rel (n->code, &k, &rel, &br)) taken = sem_fcmp (rel, rm_getd (e, &n->a), rm_getd (e, &n->b));
      else sem_ibranch (n->code, rm_geti (e, &n->a), (n->code == MIR_BT || n->code == MIR_BF || n->code == MIR_BTS || n->code == MIR_BFS) ? 0 : rm_geti (e, &n->b), &taken);
      rm_nodes (rm, fi, e, taken ? n->body[0] : n->body[1], depth); break; }
    case N_LOOP:
      e->i[n->creg] = n->n;
      if (n->variant == 2) {
        for (;;) { int taken;
          rm_seti (e, &n->a, rm_geti (e, &n->d));
          rm_nodes (rm, fi, e, n->body[0], depth); if (e->returned) break;
          e->i[n->creg] = (int64_t) ((uint64_t) e->i[n->creg] - 1); if (e->i[n->creg] <= 0) break;
          sem_ibranch (n->code, rm_geti (e, &n->a), (n->code == MIR_BT || n->code == MIR_BFS) ? 0 : rm_geti (e, &n->b), &taken); if (!taken) break; }
      } else if (n->variant) { while (!e->returned && e->i[n->creg] > 0) { rm_nodes (rm, fi, e, n->body[0], depth); if (e->returned) break; e->i[n->creg] = (int64_t) ((uint64_t) e->i[n->creg] - 1); } }
      else do { rm_nodes (rm, fi, e, n->body[0], depth); if (e->returned) break; e->i[n->creg] = (int64_t) ((uint64_t) e->i[n->creg] - 1); } while (e->i[n->creg] > 0);
      break;
    case N_SWITCH: { uint64_t sel = (uint64_t) rm_geti (e, &n->a) % (uint64_t) n->n;
      e->i[n->creg] = (int64_t) sel;
      /* variants 1 and 2 leave an address in the scratch register i9: it is never read again before being redefined */
      rm_nodes (rm, fi, e, n->body[sel], depth); break; }
    case N_CALL: { const func_t *cf = &p->f[n->n];
      int64_t ia[PG_MAXARGS]; double da[PG_MAXARGS]; uint8_t *pa[PG_MAXARGS]; int64_t ri = 0; double rd = 0;
      for (int k = 0; k < n->nargs; k++) {
        if (cf->ptype[k] == MIR_T_P) pa[k] = e->ptr[n->args[k].base];
        else if (cf->ptype[k] == MIR_T_D) da[k] = rm_getd (e, &n->args[k]);
        else ia[k] = sem_narrow (cf->ptype[k], rm_geti (e, &n->args[k]));   /* "integer arguments are truncated according to the prototype" */
      }
      rm_call (rm, n->n, ia, da, pa, &ri, &rd, depth + 1);
      for (int k = 0; k < cf->nres; k++) { if (cf->rtype[k] == MIR_T_D) e->d[n->res_d] = rd; else e->i[n->res_i] = ri; }
      break; }
    case N_EXT: e->i[n->res_i] = rm_ext_log (rm, n->n, rm_geti (e, &n->a), rm_geti (e, &n->b)); break;
    case N_RET: e->ri = rm_geti (e, &n->a); e->rd = rm_getd (e, &n->b); e->returned = 1; break;
    case N_OVF: { int64_t r; int so = 0, uo = 0;
      sem_int3 (n->code, rm_geti (e, &n->a), rm_geti (e, &n->b), &r, &so, &uo);
      e->i[n->d.reg] = r;
      if (n->variant) e->i[PG_NI - 2] = r; /* the text moves the (possibly 32-bit) result; i8 is scratch and redefined before any 64-bit use?  no: normalise */
      int flag = n->n == 0 ? so : n->n == 1 ? !so : n->n == 2 ? uo : !uo;
      rm_nodes (rm, fi, e, flag ? n->body[0] : n->body[1], depth); break; }
    case N_ALLOCA: { uint8_t *a = calloc (1, PG_BUF + 16); e->allocas[n->n - 2] = a; e->ptr[n->n] = a;
      if (n->variant) e->i[PG_NI - 2] = (e->i[0] & 15) + PG_BUF;
      e->i[PG_NI - 1] = PG_BUF / 8; break; }
    case N_IRRED: {
      e->i[n->creg] = n->n; e->i[PG_NI - 2] = rm_geti (e, &n->a) & 1;
      int at_b = e->i[PG_NI - 2] != 0;
      for (;;) {
        if (!at_b) { rm_nodes (rm, fi, e, n->body[0], depth); if (e->returned) break; e->i[n->creg]--; if (e->i[n->creg] <= 0) break; }
        at_b = 0;
        rm_nodes (rm, fi, e, n->body[1], depth); if (e->returned) break; e->i[n->creg]--; if (!(e->i[n->creg] > 0)) break;
      }
      break; }
    }
  }
  (void) f;
}
static void rm_call (rm_t *rm, int fi, const int64_t *ia, const double *da, uint8_t *const *pa, int64_t *ri, double *rd, int depth) {
  const func_t *f = &rm->p->f[fi];
  rm_env_t E, *e = &E;
  memset (e, 0, sizeof E);
  if (depth > 60) { rm->overflow = 1; return; }
  e->ptr[0] = pa[0]; e->ptr[1] = rm->gdata; e->ptr[2] = pa[0]; e->ptr[3] = pa[0];
  if (f->frame_first) e->ptr[2] = e->allocas[0] = calloc (1, PG_BUF + 16);
  int ai = 0, di = 0;
  for (int k = 1; k < f->nparams; k++) { if (f->ptype[k] == MIR_T_D) { if (di < PG_ND) e->d[di++] = da[k]; } else { e->a[k] = ia[k]; if (ai < PG_NI) e->i[ai++] = ia[k]; } }
  for (; ai < PG_NI; ai++) { if (rm->p->feat & PF_CONST_INIT) e->i[ai] = ai * 1000003 + 7 * fi; else e->i[ai] = sem_load_int (MIR_T_I64, rm->gdata + 8 * ai + fi); }
  for (; di < PG_ND; di++) e->d[di] = di + fi + 0.5;
  for (int k = 0; k < PG_NF; k++) e->f[k] = k + 1 + 0.25f;
  for (int k = 0; k < PG_NL; k++) e->l[k] = k + 2 + 0.125L;
  if (f->depth_param >= 0) {
    int64_t dp = ia[f->depth_param];
    if (dp > 0 && dp <= 3) {
      int64_t ia2[PG_MAXARGS]; double da2[PG_MAXARGS]; uint8_t *pa2[PG_MAXARGS]; int64_t r2 = 0; double d2 = 0;
      e->i[PG_NI - 2] = dp - 1;
      for (int k = 0; k < f->nparams; k++) { pa2[k] = pa[0]; da2[k] = 1.5; ia2[k] = k == f->depth_param ? dp - 1 : sem_narrow (f->ptype[k], 40 + k); }
      rm_call (rm, fi, ia2, da2, pa2, &r2, &d2, depth + 1);
      for (int k = 0; k < f->nres; k++) { if (f->rtype[k] == MIR_T_D) e->d[0] = d2; else e->i[0] = r2; }
    }
  }
  if (f->big) for (int k = 0; k < 70; k++) { e->i[PG_NI - 2] = (int64_t) ((uint64_t) e->i[PG_NI - 2] + (uint64_t) (k + 1)); e->i[PG_NI - 2] ^= k; e->i[PG_NI - 2] = (int64_t) ((uint64_t) e->i[PG_NI - 2] - (uint64_t) (k + 1)); }
  rm_nodes (rm, fi, e, f->body, depth);
  if (!e->returned) { e->ri = e->i[0]; e->rd = e->d[0]; }
  if (f->nres >= 1) *ri = sem_narrow (f->rtype[0], e->ri);   /* "truncated to the corresponding function return type" */
  if (f->nres >= 2) *rd = e->rd;
  if (f->nres == 1 && f->rtype[0] == MIR_T_D) *rd = e->rd;
  free (e->allocas[0]); free (e->allocas[1]);
}
#endif
