/* Helpers shared by harnesses that link libmir: arena allocator (abandoned contexts cost nothing),
   tracked code allocator, longjmp-ing error function, memory text streams. */
#ifndef VP_MIR_H
#define VP_MIR_H
#include <setjmp.h>
#include <sys/mman.h>
#include <signal.h>
#include "vp.h"
#include "mir.h"
#include "mir-gen.h"

/* ---------------- arena allocator: every block of a case is dropped wholesale when the next case starts, so a context
   abandoned after an error callback costs nothing.  Plain builds: bump pointer.  ASan builds: real malloc blocks (so red
   zones and use-after-free detection keep working) remembered in a list and freed at reset. */
#ifndef VP_ARENA_SIZE
#define VP_ARENA_SIZE ((size_t) 1 << 31)
#endif
static size_t vp_arena_used, vp_arena_peak;
#if defined(__SANITIZE_ADDRESS__)
static void **vp_blocks; static size_t vp_nblocks, vp_blocks_cap;
static void vp_arena_reset (void) {
  for (size_t i = 0; i < vp_nblocks; i++) free (vp_blocks[i]);
  vp_nblocks = 0; vp_arena_used = 0;
}
static void vp_track (void *p) {
  if (vp_nblocks == vp_blocks_cap) { vp_blocks_cap = vp_blocks_cap ? vp_blocks_cap * 2 : 4096; vp_blocks = realloc (vp_blocks, vp_blocks_cap * sizeof (void *)); }
  vp_blocks[vp_nblocks++] = p;
}
static void *vp_ar_malloc (size_t sz, void *ud) { void *p = malloc (sz ? sz : 1); vp_track (p); vp_arena_used += sz; return p; }
static void *vp_ar_calloc (size_t n, size_t sz, void *ud) { void *p = calloc (n ? n : 1, sz ? sz : 1); vp_track (p); vp_arena_used += n * sz; return p; }
static void *vp_ar_realloc (void *p, size_t old, size_t nw, void *ud) {
  /* keep the old block alive until reset (it stays in the list); hand out a fresh copy */
  void *q = malloc (nw ? nw : 1); vp_track (q);
  if (p != NULL) memcpy (q, p, old < nw ? old : nw);
  return q;
}
static void vp_ar_free (void *p, void *ud) {}
#else
static char *vp_arena;
static void vp_arena_init (void) {
  if (vp_arena == NULL) {
    vp_arena = mmap (NULL, VP_ARENA_SIZE, PROT_READ | PROT_WRITE, MAP_PRIVATE | MAP_ANONYMOUS | MAP_NORESERVE, -1, 0);
    if (vp_arena == MAP_FAILED) { perror ("arena mmap"); exit (3); }
  }
}
static void vp_arena_reset (void) {
  vp_arena_init ();
  if (vp_arena_used > vp_arena_peak) vp_arena_peak = vp_arena_used;
  /* give pages back when a case used a lot, so RSS stays bounded */
  if (vp_arena_used > ((size_t) 64 << 20)) madvise (vp_arena, vp_arena_used, MADV_DONTNEED);
  vp_arena_used = 0;
}
static void *vp_ar_malloc (size_t sz, void *ud) {
  size_t a = (vp_arena_used + 15) & ~(size_t) 15;
  if (vp_arena == NULL) vp_arena_init ();
  if (a + sz + 16 > VP_ARENA_SIZE) { fprintf (stderr, "harness: arena exhausted\n"); exit (3); }
  *(size_t *) (vp_arena + a) = sz;
  vp_arena_used = a + 16 + sz;
  return vp_arena + a + 16;
}
static void *vp_ar_calloc (size_t n, size_t sz, void *ud) {
  void *p = vp_ar_malloc (n * sz, ud);
  memset (p, 0, n * sz);
  return p;
}
static void *vp_ar_realloc (void *p, size_t old, size_t nw, void *ud) {
  void *q = vp_ar_malloc (nw, ud);
  if (p != NULL) {
    size_t real = *(size_t *) ((char *) p - 16);
    memcpy (q, p, real < nw ? real : nw);
  }
  return q;
}
static void vp_ar_free (void *p, void *ud) {}
#endif
static struct MIR_alloc vp_arena_alloc = {vp_ar_malloc, vp_ar_calloc, vp_ar_realloc, vp_ar_free, NULL};

/* ---------------- tracked code allocator: everything mapped during a case is unmapped at its end */
#define VP_MAXMAPS 4096
static struct { void *p; size_t len; } vp_maps[VP_MAXMAPS];
static int vp_nmaps;
static void *vp_cm_map (size_t len, void *ud) {
  void *p = mmap (NULL, len, PROT_READ | PROT_WRITE | PROT_EXEC, MAP_PRIVATE | MAP_ANONYMOUS, -1, 0);
  if (p == MAP_FAILED) return NULL;
  if (vp_nmaps < VP_MAXMAPS) { vp_maps[vp_nmaps].p = p; vp_maps[vp_nmaps].len = len; vp_nmaps++; }
  return p;
}
static int vp_cm_unmap (void *p, size_t len, void *ud) {
  for (int i = 0; i < vp_nmaps; i++)
    if (vp_maps[i].p == p) { vp_maps[i] = vp_maps[--vp_nmaps]; break; }
  return munmap (p, len);
}
static int vp_cm_protect (void *p, size_t len, MIR_mem_protect_t prot, void *ud) {
  return mprotect (p, len, prot == PROT_WRITE_EXEC ? PROT_READ | PROT_WRITE | PROT_EXEC : PROT_READ | PROT_EXEC);
}
static struct MIR_code_alloc vp_code_alloc = {vp_cm_map, vp_cm_unmap, vp_cm_protect, NULL};
static void vp_code_reset (void) {
  for (int i = 0; i < vp_nmaps; i++) munmap (vp_maps[i].p, vp_maps[i].len);
  vp_nmaps = 0;
}

/* ---------------- error function */
static jmp_buf vp_err_env;
static int vp_err_armed;
static MIR_error_type_t vp_err_type;
static char vp_err_msg[512];
static int vp_err_count;
static void MIR_NO_RETURN vp_error_func (MIR_error_type_t t, const char *fmt, ...) {
  va_list ap;
  va_start (ap, fmt);
  vsnprintf (vp_err_msg, sizeof vp_err_msg, fmt, ap);
  va_end (ap);
  vp_err_type = t;
  vp_err_count++;
  if (!vp_err_armed) { fprintf (stderr, "harness: unexpected MIR error %d: %s\n", (int) t, vp_err_msg); abort (); }
  longjmp (vp_err_env, 1);
}
/* usage: if (VP_TRY) { ...code that may raise... VP_END; } else { ...error in vp_err_type... } */
#define VP_TRY (vp_err_armed = 1, setjmp (vp_err_env) == 0)
#define VP_END (vp_err_armed = 0)

/* a fresh context on the arena; the previous one (if abandoned) is simply dropped */
static MIR_context_t vp_new_ctx (void) {
  vp_arena_reset ();
  vp_code_reset ();
  MIR_context_t ctx = MIR_init2 (&vp_arena_alloc, &vp_code_alloc);
  MIR_set_error_func (ctx, vp_error_func);
  return ctx;
}

/* a further context for the same case (shares the arena; not reset) */
static MIR_context_t vp_more_ctx (void) {
  MIR_context_t ctx = MIR_init2 (&vp_arena_alloc, &vp_code_alloc);
  MIR_set_error_func (ctx, vp_error_func);
  return ctx;
}

/* per-case watchdog: a hang inside the library is reported by the harness itself (exit 99 = "violation already printed") */
static const char *vp_watch_fp = "timeout";
static long vp_watch_case;
static const char *vp_watch_phase = "";
static void vp_on_alarm (int sig) {
  char b[256];
  int n = snprintf (b, sizeof b, "VIOL %s:%s | case=%ld watchdog fired in phase %s\n", vp_watch_fp, vp_watch_phase, vp_watch_case, vp_watch_phase);
  fflush (stdout);
  if (write (1, b, n) < 0) {}
  _exit (99);
}
static void vp_watch (long c, const char *phase, unsigned secs) {
  static int inst;
  if (!inst) { signal (SIGALRM, vp_on_alarm); inst = 1; }
  vp_watch_case = c; vp_watch_phase = phase; alarm (secs);
}

static const char *vp_err_name (MIR_error_type_t t) {
  static const char *n[] = {"no", "syntax", "binary_io", "alloc", "finish", "no_module", "nested_module", "no_func",
                            "func", "vararg_func", "nested_func", "wrong_param_value", "hard_reg",
                            "reserved_name", "import_export", "undeclared_func_reg", "repeated_decl", "reg_type",
                            "wrong_type", "unique_reg", "undeclared_op_ref", "ops_num", "call_op", "unspec_op",
                            "wrong_lref", "ret", "op_mode", "out_op", "invalid_insn", "ctx_change"};
  return (unsigned) t < sizeof n / sizeof n[0] ? n[t] : "?";
}

/* ---------------- memory FILE helpers */
typedef struct { char *p; size_t len; FILE *f; } vp_mem_t;
static void vp_mem_open (vp_mem_t *m) { m->p = NULL; m->len = 0; m->f = open_memstream (&m->p, &m->len); }
static void vp_mem_close (vp_mem_t *m) { if (m->f) { fclose (m->f); m->f = NULL; } }
static void vp_mem_free (vp_mem_t *m) { vp_mem_close (m); free (m->p); m->p = NULL; m->len = 0; }
#endif
