"""C12: compression layer lossless + robust (header-only harness, ASan + UBSan)."""
import re
import subprocess
from vlib import build, common
from checks.c19 import HDR_FLAGS

RULE = ("a case is one payload: exh = every string over alphabets of 1..4 byte values up to the stated lengths (all distinct by "
        "enumeration), struct = generated run/periodic/incompressible/text/multi-buffer payloads, craft = 64 grammar-aware adversarial "
        "streams per case. For each payload: encode, decode (identity), then decode every truncation, 1-3 byte extension, all 255 "
        "substitutions per position (streams <= 64 bytes; 3-6 values otherwise), deletions, insertions, adjacent swaps; each must be "
        "reported as failure. non-trivial = the encoding contains at least one back-reference (or the case is a crafted batch)")


def run(tier):
    res = common.Result("C12")
    exe = build.build_harness("c12", ["c12_reduce.c"], "asan", link_lib=False, flags_override=HDR_FLAGS, hdr_only=True)
    seed = common.seed()
    th = tier == "thorough"
    maxlen = 9 if th else 7
    out = subprocess.run([exe, "--mode", "exh", "--extra", str(maxlen), "--query"], stdout=subprocess.PIPE, text=True).stdout
    n_exh = int(re.search(r"TOTAL (\d+)", out).group(1))
    plan = [("exh", maxlen, n_exh), ("struct", 0, 6000 if th else 320), ("craft", 0, 40000 if th else 1500)]
    for mode, extra, n in plan:
        common.run_sharded(res, exe, ["--seed", seed, "--tier", tier, "--mode", mode, "--extra", extra], n,
                           env=common.ASAN_ENV, timeout=3000, nshards=common.NCPU * (4 if mode == "struct" else 1))
    return common.finish(
        res, tier, RULE,
        assumptions=["payload comparison decides 'accepted with different payload' vs 'accepted with identical payload'",
                     "gcc ASan/UBSan report out-of-bounds accesses of the decoder's heap block (struct reduce_data is allocated exactly-sized)"],
        extra={"exhaustive": False, "exhaustive_subspace": "payloads: all strings over {61},{61,00},{61,00,ff},{61,00,ff,80} up to lengths "
               "%d/%d/%d/%d" % (maxlen + 40, maxlen + 4, maxlen, maxlen - 4 if maxlen > 8 else maxlen)},
        evaluations=res.counters.get("decode_calls", 0),
        distinct=res.counters.get("nontrivial", 0),
        floor={"payloads_with_backrefs": 10, "payloads_multi_buffer": 1, "rejected": 1000})


def replay(path):
    print(open(path).read())
    return 0
