/* C16: whole-function code generation leaves the MIR program intact and can be repeated.
   One case = one history over a linked program:
     baseline (after link, before any generation): text of every item of the module, interpreter results of every entry
     ops: GEN f at level L (MIR_gen) / GEN again (same address) / OUTPUT all items (== baseline) / INTERP entry (== baseline) /
          CALL entry through its generated address (== baseline) / LINK a later module that calls and inlines the
          generated functions, run through interp and gen (== baseline + constant)
   Interfaces: interp interface + explicit MIR_gen, eager gen at link, lazy gen (first call generates). */
#include "modgen.h"
#include <sys/wait.h>

static long cur_case;
static int lref_mode;
static int max_level = 3; /* --extra N: highest optimisation level used */
static uint64_t gseed;
static long n_gen, n_regen_same, n_output_same, n_interp_same, n_call_same, n_later_modules, n_hist;

#define MAXITEMS 256
static char *base_text[MAXITEMS];
static MIR_item_t base_item[MAXITEMS];
static int nbase;

static char *item_text (MIR_context_t ctx, MIR_item_t it) {
  vp_mem_t ms; vp_mem_open (&ms);
  MIR_output_item (ctx, ms.f, it);
  vp_mem_close (&ms);
  return ms.p;
}
static int check_texts (MIR_context_t ctx, const char *when, char *hist) {
  for (int i = 0; i < nbase; i++) {
    char *t = NULL;
    if (VP_TRY) { t = item_text (ctx, base_item[i]); VP_END; }
    else { vp_err_armed = 0; vp_viol ("output-error-after-gen", "case=%ld MIR_output_item raised %s %s\nhistory: %s", cur_case, vp_err_msg, when, hist); return 0; }
    if (strcmp (t, base_text[i]) != 0) {
      size_t k = 0; while (t[k] && t[k] == base_text[i][k]) k++;
      size_t s = k > 80 ? k - 80 : 0;
      char fp[64]; snprintf (fp, sizeof fp, "text-changed:%s", base_item[i]->item_type == MIR_func_item ? "func" : base_item[i]->item_type == MIR_lref_data_item ? "lref" : "other-item");
      vp_viol (fp, "case=%ld item %s prints differently %s\n--- before: %.200s\n--- after:  %.200s\nhistory: %s", cur_case, MIR_item_name (ctx, base_item[i]) ? MIR_item_name (ctx, base_item[i]) : "(anon)", when,
               base_text[i] + s, t + s, hist);
      free (t);
      return 0;
    }
    free (t);
  }
  n_output_same++;
  return 1;
}

/* extra functions appended to the module text: builtin-needing insns, alloca, multiple results, a tied global register */
static const char *extra_funcs =
  "px2: proto i64, d, i64:a\n"
  "two: func i64, d, i64:a\n local d:x\n ui2d x, a\n dadd x, x, 0.5\n add a, a, 7\n ret a, x\n endfunc\n"
  "alc: func i64, i64:n\n local i64:p, i64:s, i64:i\n and n, n, 31\n add n, n, 8\n alloca p, n\n mov i, 0\n mov s, 0\n"
  "al1: bge al2, i, n\n mov u8:(p, i), i\n add i, i, 1\n jmp al1\n"
  "al2: mov i, 0\nal3: bge al4, i, n\n add s, s, u8:(p, i)\n add i, i, 1\n jmp al3\nal4: ret s\n endfunc\n"
  "vsum: func i64, i64:n, ...\n local i64:va, i64:s, i64:p\n alloca va, 32\n va_start va\n mov s, 0\n"
  "vs1: ble vs2, n, 0\n va_arg p, va, i64:0\n add s, s, i64:(p)\n sub n, n, 1\n jmp vs1\nvs2: va_end va\n ret s\n endfunc\n"
  "useg: func i64, i64:a\n global i64:greg:r14\n local i64:r\n add r, a, 1\n ret r\n endfunc\n"
  "add2: func i64, i64:a\n local i64:q, i64:r\n add q, a, 2\n mul r, q, 3\n ret r\n endfunc\n"
  "export ent0, ent1, ent2, ent3, ent4, ent5, add2, alc\n";

static int64_t ext2_log;
typedef struct { int64_t i; double d; } two_res_t;

static void run_case (long idx) {
  vp_rng_t r = vp_case_rng (gseed, 0x1600, (uint64_t) idx);
  MIR_context_t ctx = vp_new_ctx ();
  mg_info_t info;
  static char hist[4096]; int hl = 0; hist[0] = 0;
#define H(...) do { if (hl < (int) sizeof hist - 100) hl += snprintf (hist + hl, sizeof hist - hl, __VA_ARGS__); if (getenv ("VP_TRACE")) fprintf (stderr, "TRACE %s\n", hist); } while (0)
  int iface = (int) vp_below (&r, 3); /* 0 interp interface + explicit MIR_gen, 1 eager gen at link, 2 lazy gen */
  MIR_module_t m = NULL;
  char *mtext = NULL;
  /* build module = generated executable module + extra functions (through text so that both parts live in one module) */
  if (VP_TRY) {
    MIR_context_t c0 = vp_more_ctx ();
    MIR_module_t m0 = mg_build (c0, gseed, idx, MG_EXEC_ONLY | (lref_mode ? 0 : MG_NO_LREF) | MG_NO_LD_IMM * (int) vp_below (&r, 2), &info);
    vp_mem_t ms; vp_mem_open (&ms); MIR_output_module (c0, ms.f, m0); vp_mem_close (&ms);
    char *e = strstr (ms.p, "\tendmodule");
    size_t keep = e ? (size_t) (e - ms.p) : ms.len;
    mtext = malloc (keep + strlen (extra_funcs) + 32);
    memcpy (mtext, ms.p, keep); strcpy (mtext + keep, extra_funcs); strcat (mtext, "\tendmodule\n");
    free (ms.p);
    if (getenv ("VP_DUMP")) { FILE *df = fopen (getenv ("VP_DUMP"), "w"); fputs (mtext, df); fclose (df); }
    MIR_scan_string (ctx, mtext);
    m = DLIST_TAIL (MIR_module_t, *MIR_get_module_list (ctx));
    MIR_load_module (ctx, m);
    MIR_load_external (ctx, "ext_fn", mg_ext_fn); MIR_load_external (ctx, "ext_data", mg_ext_data_v);
    MIR_gen_init (ctx);
    MIR_gen_set_optimize_level (ctx, (unsigned) vp_below (&r, max_level + 1));
    MIR_link (ctx, iface == 0 ? MIR_set_interp_interface : iface == 1 ? MIR_set_gen_interface : MIR_set_lazy_gen_interface, NULL);
    VP_END;
  } else { vp_err_armed = 0; vp_viol ("setup-error", "case=%ld building/linking the program raised %s (%s)", cur_case, vp_err_name (vp_err_type), vp_err_msg); free (mtext); return; }
  H ("link(%s) ", iface == 0 ? "interp" : iface == 1 ? "gen" : "lazy");
  vp_dist (info.shape_hash);
  /* baseline.  With eager generation everything is already generated at link; the baseline text is then taken from a
     twin context that was linked with the interpreter interface only (same text => same simplified program). */
  MIR_context_t bctx = ctx; MIR_module_t bm = m;
  if (iface == 1) {
    if (VP_TRY) {
      bctx = vp_more_ctx ();
      MIR_scan_string (bctx, mtext); bm = DLIST_TAIL (MIR_module_t, *MIR_get_module_list (bctx));
      MIR_load_module (bctx, bm); MIR_load_external (bctx, "ext_fn", mg_ext_fn); MIR_load_external (bctx, "ext_data", mg_ext_data_v);
      MIR_link (bctx, MIR_set_interp_interface, NULL);
      VP_END;
    } else { vp_err_armed = 0; vp_viol ("setup-error", "case=%ld twin context raised %s", cur_case, vp_err_msg); free (mtext); return; }
  }
  nbase = 0;
  /* helper items the generator adds (imports/protos named mir.*) are not part of the claim: skip them when pairing the twin */
#define HELPER_P(c, it) (MIR_item_name (c, it) != NULL && strncmp (MIR_item_name (c, it), "mir.", 4) == 0)
  for (MIR_item_t it = DLIST_HEAD (MIR_item_t, bm->items), it2 = DLIST_HEAD (MIR_item_t, m->items); it != NULL && nbase < MAXITEMS; it = DLIST_NEXT (MIR_item_t, it)) {
    if (HELPER_P (bctx, it)) continue;
    while (it2 != NULL && HELPER_P (ctx, it2)) it2 = DLIST_NEXT (MIR_item_t, it2);
    if (it2 == NULL) break;
    base_text[nbase] = item_text (bctx, it); base_item[nbase] = it2; nbase++;
    it2 = DLIST_NEXT (MIR_item_t, it2);
  }
  MIR_item_t ents[MG_MAX_ENTRIES], fn_two = mg_find_item (ctx, m, "two"), fn_alc = mg_find_item (ctx, m, "alc"), fn_useg = mg_find_item (ctx, m, "useg"), fn_add2 = mg_find_item (ctx, m, "add2"),
             fn_vsum = mg_find_item (ctx, m, "vsum");
  int64_t base_res[MG_MAX_ENTRIES][MG_NINPUTS];
  if (VP_TRY) {
    for (int k = 0; k < info.n_entries; k++) {
      ents[k] = mg_find_item (ctx, m, info.entry_name[k]);
      MIR_item_t be = mg_find_item (bctx, bm, info.entry_name[k]);
      for (int j = 0; j < MG_NINPUTS; j++) { MIR_val_t rv, v[2]; v[0].i = mg_inputs[j][0]; v[1].i = mg_inputs[j][1]; MIR_interp_arr (bctx, be, &rv, 2, v); base_res[k][j] = rv.i; }
    }
    VP_END;
  } else { vp_err_armed = 0; vp_viol ("baseline-interp-error", "case=%ld baseline interpretation raised %s", cur_case, vp_err_msg); goto done; }
  /* ---- history */
  MIR_item_t genable[MG_MAX_ENTRIES + 5]; int ng = 0;
  for (int k = 0; k < info.n_entries; k++) genable[ng++] = ents[k];
  genable[ng++] = fn_two; genable[ng++] = fn_alc; genable[ng++] = fn_useg; genable[ng++] = fn_add2; genable[ng++] = fn_vsum;
  void *gen_addr[MG_MAX_ENTRIES + 5]; memset (gen_addr, 0, sizeof gen_addr);
  int nops = (int) vp_range (&r, 4, 16), later = 0;
  for (int n = 0; n < nops; n++) {
    int op = (int) vp_below (&r, 100);
    if (op < 35) { /* GEN */
      int g = (int) vp_below (&r, ng); unsigned lvl = (unsigned) vp_below (&r, max_level + 1);
      void *a = NULL;
      H ("gen(%s,O%u) ", MIR_item_name (ctx, genable[g]), lvl);
      vp_watch (cur_case, "MIR_gen", 120);
      if (VP_TRY) { MIR_gen_set_optimize_level (ctx, lvl); a = MIR_gen (ctx, genable[g]); VP_END; }
      else { vp_err_armed = 0; vp_viol ("gen-error", "case=%ld MIR_gen raised %s (%s)\nhistory: %s", cur_case, vp_err_name (vp_err_type), vp_err_msg, hist); goto done; }
      alarm (0);
      n_gen++;
      if (gen_addr[g] != NULL) {
        if (gen_addr[g] != a) { vp_viol ("regen-different-address", "case=%ld asking again for the code of %s returned %p, first time %p\nhistory: %s", cur_case, MIR_item_name (ctx, genable[g]), a, gen_addr[g], hist); goto done; }
        n_regen_same++;
      }
      gen_addr[g] = a;
    } else if (op < 55) { /* OUTPUT */
      H ("output ");
      if (!check_texts (ctx, "after generation", hist)) goto done;
    } else if (op < 72) { /* INTERP an entry (possibly already generated) */
      int k = (int) vp_below (&r, info.n_entries), j = (int) vp_below (&r, MG_NINPUTS);
      H ("interp(%s,#%d) ", info.entry_name[k], j);
      MIR_val_t rv, v[2]; v[0].i = mg_inputs[j][0]; v[1].i = mg_inputs[j][1]; rv.i = 0;
      if (VP_TRY) { MIR_interp_arr (ctx, ents[k], &rv, 2, v); VP_END; }
      else { vp_err_armed = 0; vp_viol ("interp-after-gen-error", "case=%ld interpreting %s raised %s (%s)\nhistory: %s", cur_case, info.entry_name[k], vp_err_name (vp_err_type), vp_err_msg, hist); goto done; }
      if (rv.i != base_res[k][j]) { vp_viol ("interp-after-gen-differs", "case=%ld interpreting %s on input #%d gives %lld, before generation %lld\nhistory: %s", cur_case, info.entry_name[k], j, (long long) rv.i, (long long) base_res[k][j], hist); goto done; }
      n_interp_same++;
    } else if (op < 88) { /* CALL through the public address (generated, lazily generated or interpreted via shim) */
      int k = (int) vp_below (&r, info.n_entries), j = (int) vp_below (&r, MG_NINPUTS);
      H ("call(%s,#%d) ", info.entry_name[k], j);
      int64_t got = 0;
      void *addr = gen_addr[k] != NULL && vp_chance (&r, 50) ? gen_addr[k] : ents[k]->addr;
      if (VP_TRY) { got = ((int64_t (*) (int64_t, int64_t)) addr) (mg_inputs[j][0], mg_inputs[j][1]); VP_END; }
      else { vp_err_armed = 0; vp_viol ("call-error", "case=%ld calling %s raised %s\nhistory: %s", cur_case, info.entry_name[k], vp_err_msg, hist); goto done; }
      if (got != base_res[k][j]) { vp_viol ("call-differs", "case=%ld calling %s on input #%d gives %lld, interpreter baseline %lld\nhistory: %s", cur_case, info.entry_name[k], j, (long long) got, (long long) base_res[k][j], hist); goto done; }
      n_call_same++;
    } else if (later < 3) { /* LINK a later module calling / inlining functions of the first one */
      int k = (int) vp_below (&r, info.n_entries), j = (int) vp_below (&r, MG_NINPUTS), inl = vp_chance (&r, 50);
      char t2[2048];
      snprintf (t2, sizeof t2,
                "lm%d: module\nimport %s, add2, alc\npe: proto i64, i64:a, i64:b\npa: proto i64, i64:a\nexport lf%d\n"
                "lf%d: func i64, i64:a, i64:b\n local i64:r, i64:q\n %s pe, %s, r, a, b\n %s pa, add2, q, 5\n add r, r, q\n call pa, alc, q, 3\n add r, r, q\n ret r\n endfunc\nendmodule\n",
                later, info.entry_name[k], later, later, inl ? "inline" : "call", info.entry_name[k], inl ? "call" : "inline");
      H ("later-module(%s %s) ", inl ? "inline" : "call", info.entry_name[k]);
      int64_t got = 0, goti = 0, want = base_res[k][j] + 21 + 55; /* add2(5) = 21 ; alc(3) = sum 0..10 = 55 */
      MIR_module_t lm = NULL;
      if (VP_TRY) {
        MIR_scan_string (ctx, t2); lm = DLIST_TAIL (MIR_module_t, *MIR_get_module_list (ctx));
        MIR_load_module (ctx, lm);
        MIR_link (ctx, iface == 0 ? MIR_set_interp_interface : iface == 1 ? MIR_set_gen_interface : MIR_set_lazy_gen_interface, NULL);
        char fn[16]; snprintf (fn, sizeof fn, "lf%d", later);
        MIR_item_t lf = mg_find_item (ctx, lm, fn);
        got = ((int64_t (*) (int64_t, int64_t)) lf->addr) (mg_inputs[j][0], mg_inputs[j][1]);
        MIR_val_t rv, v[2]; v[0].i = mg_inputs[j][0]; v[1].i = mg_inputs[j][1]; MIR_interp_arr (ctx, lf, &rv, 2, v); goti = rv.i;
        VP_END;
      } else { vp_err_armed = 0; vp_viol ("later-module-error", "case=%ld loading/linking/running a later module raised %s (%s)\nhistory: %s", cur_case, vp_err_name (vp_err_type), vp_err_msg, hist); goto done; }
      if (got != want || goti != want) { vp_viol ("later-module-differs", "case=%ld later module %s %s: got %lld (call) / %lld (interp), expected %lld\nhistory: %s", cur_case, inl ? "inlining" : "calling", info.entry_name[k], (long long) got, (long long) goti, (long long) want, hist); goto done; }
      later++; n_later_modules++;
    }
  }
  H ("output(final) ");
  if (!check_texts (ctx, "at the end of the history", hist)) goto done;
  /* the helper functions also still work: two(), alc(), vsum() through interp */
  if (VP_TRY) {
    MIR_val_t rv[2], v[4];
    v[0].i = 5; MIR_interp_arr (ctx, fn_two, rv, 1, v);
    if (rv[0].i != 12 || rv[1].d != 5.5) vp_viol ("helper-two-differs", "case=%ld two(5) = (%lld,%g) after generation\nhistory: %s", cur_case, (long long) rv[0].i, rv[1].d, hist);
    v[0].i = 3; MIR_interp_arr (ctx, fn_alc, rv, 1, v);
    if (rv[0].i != 55) vp_viol ("helper-alc-differs", "case=%ld alc(3) = %lld after generation\nhistory: %s", cur_case, (long long) rv[0].i, hist);
    VP_END;
  } else { vp_err_armed = 0; vp_viol ("helper-error", "case=%ld interpreting helper functions raised %s (%s)\nhistory: %s", cur_case, vp_err_name (vp_err_type), vp_err_msg, hist); }
  n_hist++;
done:
  alarm (0);
  vp_err_armed = 0;
  if (cur_case == 0) vp_sample ("history: %s\nmodule (first 1500 chars):\n%.1500s", hist, mtext);
  for (int i = 0; i < nbase; i++) free (base_text[i]);
  nbase = 0;
  free (mtext);
}

int main (int argc, char **argv) {
  vp_args_t a = vp_parse_args (argc, argv);
  gseed = a.seed;
  if (a.extra[0]) max_level = atoi (a.extra);
  vp_watch_fp = "generator-hang";
  long done = 0;
  lref_mode = !strcmp (a.mode, "lref");
  for (long c = a.start; c < a.start + a.count; c++) {
    cur_case = c; vp_case_begin (c);
    if (!lref_mode) { run_case (c); done++; continue; }
    /* functions referenced by lref data are prepared by whichever engine runs them last (the table is shared): run the
       history in a child so that the expected crash / wrong result is observed and fingerprinted precisely */
    fflush (stdout);
    pid_t pid = fork ();
    if (pid == 0) { alarm (60); run_case (c); fflush (stdout); _exit (0); }
    int st = 0; waitpid (pid, &st, 0);
    if (!WIFEXITED (st) || WEXITSTATUS (st) != 0)
      vp_viol ("lref-function-run-by-both-engines", "case=%ld a program whose functions dispatch through lref tables was generated and interpreted in one context; the child %s %d", c,
               WIFSIGNALED (st) ? "died with signal" : "exited with", WIFSIGNALED (st) ? WTERMSIG (st) : WEXITSTATUS (st));
    done++;
  }
  printf ("EV cases %ld\nEV histories_completed %ld\nEV gen_calls %ld\nEV regen_same_address %ld\nEV output_unchanged %ld\nEV interp_after_gen_same %ld\nEV call_same %ld\nEV later_modules_ok %ld\n", done, n_hist, n_gen,
          n_regen_same, n_output_same, n_interp_same, n_call_same, n_later_modules);
  return 0;
}
