"""C10: textual round trip of API-built modules over the full vocabulary (fast + asan builds)."""
from vlib import build, common

RULE = ("one case = one module built through the MIR API by h/modgen.h (prototypes incl. block/rblk/vararg, import/export/forward, data of "
        "every element type, strings with arbitrary bytes, bss, ref, lref, expr, vocabulary functions with every operand form of every "
        "opcode, executable entry functions); checked: structural equality of scan(output(M)) with M (every item, insn, operand field), "
        "output(scan(T2)) == T2 byte-wise, equal results of the executable entries before/after. distinct = distinct module shape hashes "
        "(item-kind set x data-type set x operand-kind set x size); every generated module has >= 1 loop and >= 12 insns")


def run(tier, prop="C10", mode="text", feat=0, harness="c10"):
    res = common.Result(prop)
    th = tier == "thorough"
    seed = common.seed()
    for cfg in ("fast", "asan"):
        exe = build.build_harness(harness, ["c10_roundtrip.c"], cfg)
        n = (60000 if th else 2400) if cfg == "fast" else (6000 if th else 320)
        common.run_sharded(res, exe, ["--seed", seed, "--mode", mode, "--extra", feat], n, env=common.ASAN_ENV, timeout=3000)
        if mode == "binary":  # large streams (several compression buffers)
            nb = (300 if th else 16) if cfg == "fast" else (30 if th else 0)
            if nb:
                common.run_sharded(res, exe, ["--seed", seed + 7777, "--mode", mode, "--extra", feat | 128], nb, env=common.ASAN_ENV, timeout=3000)
            if cfg == "fast":  # uncompressed stream length exactly on / next to 1x, 2x(, 3x) the 256K compression buffer
                common.run_sharded(res, exe, ["--seed", seed, "--mode", "edge"], 15 if th else 10, env=common.ASAN_ENV, timeout=3000)
    if mode == "text":  # dedicated sub-run for the open finding: string operands without trailing NUL
        exe = build.build_harness(harness, ["c10_roundtrip.c"], "fast")
        common.run_sharded(res, exe, ["--seed", seed + 99, "--mode", mode, "--extra", feat | 512], 400 if th else 64, env=common.ASAN_ENV, timeout=3000)
    floors = {"struct_equal": 100, "exec_equal": 100, "fixpoint_ok": 100}
    if mode == "binary":
        floors["multi_buffer_streams"] = 1
    return common.finish(
        res, tier, RULE if mode == "text" else RULE.replace("scan(output(M))", "read(write(M))").replace("output(scan(T2)) == T2 byte-wise", "write twice gives identical bytes, write(read(B)) == B, text equal"),
        assumptions=["structural comparison in h/modgen.h (mc_module_equal) compares every public field of items, insns and operands by name/value",
                     "integer immediates are compared modulo 2^64 (int vs uint operand modes print alike)"],
        extra={"generator_feature_mask": feat},
        floor=floors)


def replay(path):
    print(open(path).read())
    return 0
