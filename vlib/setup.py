"""./run setup : build every library configuration from /repo into the cache (offline)."""
import sys
import time
from concurrent.futures import ThreadPoolExecutor
from . import build


def main():
    t = time.time()
    cfgs = ["fast", "asan", "tsan", "noinl", "allinl", "alloc"]
    with ThreadPoolExecutor(max_workers=3) as ex:
        for c, d in zip(cfgs, ex.map(build.build_lib, cfgs)):
            print("built %-7s %s" % (c, d))
    print("setup done in %.1fs" % (time.time() - t))
    return 0
