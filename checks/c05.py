"""C05 / C06: MIR code <-> native code calls follow the C ABI for every signature (differential against a gcc-only build).

The MIR side is produced by c2mir from generated C (c2mir derives the MIR prototypes, block-type classes, extensions and va code),
the native side is gcc-compiled.  C05: MIR code (interpreted, generated at -O0..-O3, lazy, lazy BB) calls native functions, incl.
variadic ones; the native callee prints every argument it received, checks the stack alignment at entry and returns a value the caller
prints.  C06: native code calls MIR functions through their addresses (callbacks), incl. variadic MIR functions reading their tail
with va_arg, with sentinel values in every callee-saved register and known MXCSR / x87 control words, which must survive the call;
the MIR callee prints what it received, uses an alloca'd buffer and calls back out.  Everything printed must equal the output of the
same two files compiled by gcc alone.  """
import os
import random
import re
import subprocess
import tempfile
from concurrent.futures import ThreadPoolExecutor
from vlib import build, common

TYPES = [("char", "%d", "(int) "), ("signed char", "%d", "(int) "), ("unsigned char", "%u", "(unsigned) "), ("short", "%d", "(int) "), ("unsigned short", "%u", "(unsigned) "),
         ("int", "%d", ""), ("unsigned", "%u", ""), ("long", "%ld", ""), ("unsigned long", "%lu", ""), ("long long", "%lld", ""), ("float", "%.9g", "(double) "),
         ("double", "%.17g", ""), ("long double", "%.21Lg", ""), ("void *", "%p", ""), ("_Bool", "%d", "(int) ")]
VALS = {"char": ["-128", "127", "65", "-1"], "signed char": ["-128", "127", "-1", "5"], "unsigned char": ["255", "128", "0", "200"], "short": ["-32768", "32767", "-1", "300"],
        "unsigned short": ["65535", "32768", "1", "40000"], "int": ["-2147483647 - 1", "2147483647", "-1", "123456"], "unsigned": ["4294967295u", "2147483648u", "7u", "3000000000u"],
        "long": ["-9223372036854775807L - 1", "9223372036854775807L", "-1L", "1234567890123L"], "unsigned long": ["18446744073709551615ul", "9223372036854775808ul", "1ul", "99ul"],
        "long long": ["-5LL", "9223372036854775807LL", "0LL", "-1234567890123LL"], "float": ["1.5f", "-0.25f", "3.0e38f", "1e-30f"], "double": ["2.5", "-1e300", "1e-300", "123456.789"],
        "long double": ["3.25L", "-1e4000L", "1e-4000L", "7.0L"], "void *": ["(void *) 0", "(void *) 4096", "(void *) -1L", "(void *) 0x7fff0000"], "_Bool": ["1", "0", "1", "1"]}
# by-value blocks of every passing class: INTEGER x1/x2, SSE x1/x2, INTEGER+SSE, SSE+INTEGER, MEMORY
STRUCTS = {"struct P1": ("struct P1 { long x; };", "{%ld}", "{0}.x", ["(struct P1) {11}", "(struct P1) {-1}"]),
           "struct P2": ("struct P2 { long x, y; };", "{%ld,%ld}", "{0}.x, {0}.y", ["(struct P2) {21, 22}", "(struct P2) {-5, 7}"]),
           "struct D1": ("struct D1 { double x; };", "{%g}", "{0}.x", ["(struct D1) {1.5}"]),
           "struct D2": ("struct D2 { double x, y; };", "{%g,%g}", "{0}.x, {0}.y", ["(struct D2) {2.5, 3.5}"]),
           "struct ID": ("struct ID { long x; double y; };", "{%ld,%g}", "{0}.x, {0}.y", ["(struct ID) {31, 4.5}"]),
           "struct DI": ("struct DI { double x; long y; };", "{%g,%ld}", "{0}.x, {0}.y", ["(struct DI) {5.5, 41}"]),
           "struct FF": ("struct FF { float x, y; int z; };", "{%g,%g,%d}", "{0}.x, {0}.y, {0}.z", ["(struct FF) {1.25f, 2.25f, 9}"]),
           "struct IF": ("struct IF { int x; float y; };", "{%d,%g}", "{0}.x, {0}.y", ["(struct IF) {55, 6.0f}"]),
           "struct CFD": ("struct CFD { char x; float y; double z; };", "{%d,%g,%g}", "{0}.x, {0}.y, {0}.z", ["(struct CFD) {7, 1.5f, 2.5}"]),
           "struct M3": ("struct M3 { long x, y, z; };", "{%ld,%ld,%ld}", "{0}.x, {0}.y, {0}.z", ["(struct M3) {51, 52, 53}"]),
           # 16-byte aligned aggregates (long double members): MEMORY class arguments that must land on a 16-byte boundary; L1 is returned in st0
           "struct L1": ("struct L1 { long double x; };", "{%Lg}", "{0}.x", ["(struct L1) {6.5L}", "(struct L1) {-2.25L}"]),
           "struct LI": ("struct LI { long double x; int y; };", "{%Lg,%d}", "{0}.x, {0}.y", ["(struct LI) {7.5L, 61}"]),
           "union UL": ("union UL { long double x; long y[2]; };", "{%ld,%ld}", "{0}.y[0], {0}.y[1]", ["(union UL) {.y = {71, 72}}"])}
for _k, _v in STRUCTS.items():
    TYPES.append((_k, None, None))
    VALS[_k] = _v[3]
VA_TYPES = [("int", "i", "%d"), ("long", "l", "%ld"), ("double", "d", "%.17g"), ("long double", "L", "%.21Lg"), ("void *", "p", "%p"), ("unsigned", "u", "%u"), ("unsigned long", "U", "%lu")]


def gen(rng, mode):
    r = rng
    nfun = r.randint(3, 6)
    hdr = ["#include <stdio.h>", "#include <stdarg.h>", "#include <string.h>"] + [v[0] for v in STRUCTS.values()]
    ext, main = [], []
    shapes = []
    calls = []
    for k in range(nfun):
        n = r.choice([0, 1, 2, 5, 6, 7, 8, 9, 10, 12, 14, 16]) if r.random() < 0.6 else r.randint(0, 16)
        ts = [r.choice(TYPES) for _ in range(n)]
        # make sure register files overflow often: runs of integers / doubles
        if r.random() < 0.3:
            ts = [r.choice(TYPES[:10]) for _ in range(r.randint(3, 10))] + ts[:4]
        elif r.random() < 0.3:
            ts = [r.choice(TYPES[10:12]) for _ in range(r.randint(9, 11))] + ts[:4]
        ret = r.choice(TYPES + [("void", None, None)])
        params = ", ".join("%s a%d" % (t[0], i) for i, t in enumerate(ts)) or "void"
        shapes.append((ret[0], tuple(t[0] for t in ts)))
        def show_one(t, name):
            if t[0] in STRUCTS:
                return "printf (\" %s\", %s);" % (STRUCTS[t[0]][1], STRUCTS[t[0]][2].replace("{0}", name))
            return "printf (\" %s\", %s%s);" % (t[1], t[2], name)
        pr = "printf (\"%s f%d:\", who); " % ("%s", k) + " ".join(show_one(t, "a%d" % i) for i, t in enumerate(ts)) + " printf (\"\\n\");"
        retval = "" if ret[0] == "void" else (" return %s;" % r.choice(VALS[ret[0]])) if ret[0] in STRUCTS else " return (%s) %s;" % (ret[0], r.choice(VALS[ret[0]]))
        args = ", ".join(r.choice(VALS[t[0]]) for t in ts)
        if ret[0] == "void":
            show = ""
        elif ret[0] in STRUCTS:
            show = "printf (\"%%s ret f%d: %s\\n\", who, %s);" % (k, STRUCTS[ret[0]][1], STRUCTS[ret[0]][2].replace("{0}", "v"))
        else:
            show = "printf (\"%%s ret f%d: %s\\n\", who, %sv);" % (k, ret[1], ret[2])
        if mode == "c05":  # MIR caller -> native callee
            hdr.append("%s ext_f%d (%s);" % (ret[0], k, params))
            ext.append("%s ext_f%d (%s) { const char *who = \"ext\"; if (((unsigned long) __builtin_frame_address (0)) & 15) printf (\"STACK NOT 16-BYTE ALIGNED AT CALL of f%d\\n\");\n  %s%s }" % (ret[0], k, params, k, pr, retval))
            call = ("ext_f%d (%s);" % (k, args)) if ret[0] == "void" else "{ %s v = ext_f%d (%s); const char *who = \"main\"; %s }" % (ret[0], k, args, show)
            calls.append(call)
        else:  # native caller -> MIR callee
            hdr.append("%s cb_f%d (%s);" % (ret[0], k, params))
            hdr.append("void ext_call_cb%d (%s (*cb) (%s));" % (k, ret[0], params))
            body = "const char *who = \"cb\"; char *buf = __builtin_alloca (%d); memset (buf, %d, %d); if ((unsigned long) buf & 15) printf (\"ALLOCA NOT ALIGNED\\n\");\n  %s helper_out (buf[%d]);%s" % (
                16 * r.randint(1, 40), k + 1, 16, pr, r.randint(0, 15), retval)
            main.append("%s cb_f%d (%s) { %s }" % (ret[0], k, params, body))
            inner = ("cb (%s);" % args) if ret[0] == "void" else "{ %s v = cb (%s); const char *who = \"ext\"; %s }" % (ret[0], args, show)
            ext.append("void ext_call_cb%d (%s (*cb) (%s)) { set_sentinels (); %s check_sentinels (\"f%d\"); }" % (k, ret[0], params, inner, k))
            calls.append("ext_call_cb%d (cb_f%d);" % (k, k))
    # variadic
    for k in range(r.randint(2, 4)):
        nnamed_i, nnamed_d = r.choice([0, 1, 5, 6, 7]), r.choice([0, 1, 7, 8, 9])
        named = ["long n%d" % i for i in range(nnamed_i)] + ["double m%d" % i for i in range(nnamed_d)]
        r.shuffle(named)
        named = named + ["const char *fmt"]
        tail = [r.choice(VA_TYPES) for _ in range(r.randint(0, 14))]
        if r.random() < 0.4:
            tail = [VA_TYPES[2]] * r.randint(7, 10) + tail[:3]
        fmt = "".join(t[1] for t in tail)
        nargs = ", ".join([("%d" % (i * 11 + 1)) if p.startswith("long") else ("%d.5" % i) for i, p in enumerate(named[:-1])] + ["\"%s\"" % fmt])
        targs = ", ".join(r.choice(VALS[t[0]]) for t in tail)
        walker = ("va_list ap; va_start (ap, fmt); printf (\"%s v" + str(k) + ":\", who); " + " ".join("printf (\" %s\", %s);" % ("%ld" if p.startswith("long") else "%.17g", p.split()[-1]) for p in named[:-1])
                  + " for (const char *f = fmt; *f; f++) switch (*f) { "
                  + " ".join("case '%s': printf (\" %s\", va_arg (ap, %s)); break;" % (t[1], t[2], t[0]) for t in VA_TYPES)
                  + " } va_end (ap); printf (\"\\n\"); return (long) strlen (fmt);")
        sig = ", ".join(named) + ", ..."
        shapes.append(("va", nnamed_i, nnamed_d, fmt))
        allargs = nargs + (", " + targs if targs else "")
        if mode == "c05":
            hdr.append("long ext_v%d (%s);" % (k, sig))
            ext.append("long ext_v%d (%s) { const char *who = \"ext\"; if (((unsigned long) __builtin_frame_address (0)) & 15) printf (\"STACK NOT 16-BYTE ALIGNED AT CALL of v%d\\n\"); %s }" % (k, sig, k, walker))
            calls.append("printf (\"main ret v%d: %%ld\\n\", ext_v%d (%s));" % (k, k, allargs))
        else:
            hdr.append("long cb_v%d (%s);" % (k, sig))
            hdr.append("void ext_call_v%d (long (*cb) (%s));" % (k, sig))
            main.append("long cb_v%d (%s) { const char *who = \"cb\"; %s }" % (k, sig, walker))
            ext.append("void ext_call_v%d (long (*cb) (%s)) { set_sentinels (); long v = cb (%s); check_sentinels (\"v%d\"); printf (\"ext ret v%d: %%ld\\n\", v); }" % (k, sig, allargs, k, k))
            calls.append("ext_call_v%d (cb_v%d);" % (k, k))
    header = "\n".join(hdr) + "\nvoid helper_out (int x);\n"
    sent = r"""
register long s_rbx asm ("rbx"); register long s_r12 asm ("r12"); register long s_r13 asm ("r13"); register long s_r14 asm ("r14"); register long s_r15 asm ("r15");
static unsigned mx0; static unsigned short cw0;
static void set_sentinels (void) { s_rbx = 0x1111111111111111; s_r12 = 0x2222222222222222; s_r13 = 0x3333333333333333; s_r14 = 0x4444444444444444; s_r15 = 0x5555555555555555;
  __asm__ volatile ("stmxcsr %0" : "=m" (mx0)); __asm__ volatile ("fnstcw %0" : "=m" (cw0)); }
static void check_sentinels (const char *f) { unsigned mx; unsigned short cw;
  long b = s_rbx, c = s_r12, d = s_r13, e = s_r14, g = s_r15;
  __asm__ volatile ("stmxcsr %0" : "=m" (mx)); __asm__ volatile ("fnstcw %0" : "=m" (cw));
  if (b != 0x1111111111111111) printf ("CALLEE-SAVED rbx CLOBBERED by %s\n", f); if (c != 0x2222222222222222) printf ("CALLEE-SAVED r12 CLOBBERED by %s\n", f);
  if (d != 0x3333333333333333) printf ("CALLEE-SAVED r13 CLOBBERED by %s\n", f); if (e != 0x4444444444444444) printf ("CALLEE-SAVED r14 CLOBBERED by %s\n", f);
  if (g != 0x5555555555555555) printf ("CALLEE-SAVED r15 CLOBBERED by %s\n", f);
  if ((mx & 0xffc0) != (mx0 & 0xffc0)) printf ("MXCSR CONTROL BITS CHANGED by %s\n", f); if (cw != cw0) printf ("X87 CONTROL WORD CHANGED by %s\n", f); }
"""
    extsrc = header + (sent if mode == "c06" else "") + "void helper_out (int x) { printf (\"helper %d\\n\", x); }\n" + "\n".join(ext) + "\n"
    mainsrc = header + "\n".join(main) + "\nint main (void) { " + " ".join(calls) + " return 0; }\n"
    return extsrc, mainsrc, hash(tuple(shapes)) & 0xffffffffffff


def run_cmd(cmd, env=None, timeout=120):
    try:
        r = subprocess.run(cmd, stdout=subprocess.PIPE, stderr=subprocess.PIPE, text=True, errors="replace", timeout=timeout, env=env)
        return r.returncode, r.stdout, r.stderr
    except subprocess.TimeoutExpired:
        return -999, "", "timeout"


ENGINES = [("-ei",), ("-eg", "-O0"), ("-eg", "-O1"), ("-eg", "-O2"), ("-eg", "-O3"), ("-el",), ("-eb",)]


def one_case(args):
    c2m, seed, idx, tmp, mode = args
    rng = random.Random((seed << 32) ^ (idx * 40503) ^ (7 if mode == "c06" else 0))
    ext, mainc, shape = gen(rng, mode)
    d = os.path.join(tmp, "c%d" % idx)
    os.makedirs(d, exist_ok=True)
    env = dict(os.environ, ASAN_OPTIONS="detect_leaks=0:abort_on_error=1", LD_LIBRARY_PATH=d)
    out = []
    try:
        ep, mp = os.path.join(d, "ext.c"), os.path.join(d, "main.c")
        open(ep, "w").write(ext)
        open(mp, "w").write(mainc)
        rc, _, err = run_cmd(["gcc", "-std=gnu11", "-O1", "-fno-omit-frame-pointer", "-w", "-shared", "-fPIC", ep, "-o", os.path.join(d, "libvpext.so")])
        rc2, _, err2 = run_cmd(["gcc", "-std=gnu11", "-w", mp, "-L" + d, "-lvpext", "-o", os.path.join(d, "main_ref")])
        if rc or rc2:
            return [("discard", "reference-compiler-rejects", shape, (err + err2)[-400:])]
        rc, ref, _ = run_cmd([os.path.join(d, "main_ref")], env=env)
        if rc != 0 or "CLOBBERED" in ref or "NOT" in ref:
            return [("discard", "reference-run-fails", shape, ref[-300:])]
        ref = re.sub(r"0x[0-9a-f]+|\(nil\)", lambda m: m.group(0), ref)
        for eng in ENGINES:
            rc, got, err = run_cmd([c2m] + list(eng[1:]) + ["-L" + d, "-lvpext", mp, eng[0]], env=env)   # options after -e* are arguments of the executed program
            en = "".join(eng).strip("-")
            ecls = "interp" if en == "ei" else "lazy" if en in ("el", "eb") else "gen"
            if rc != 0:
                summ = common.san_summary(err)
                out.append(("viol", "crash:%s:%s" % (ecls, summ or common._sig_name(rc)), shape, "case %d %s exit %d\n%s\n--- main.c\n%s\n--- ext.c\n%s" % (idx, en, rc, err[-1500:], mainc, ext)))
                continue
            if got != ref:
                la, lb = got.splitlines(), ref.splitlines()
                x = y = None
                for i in range(max(len(la), len(lb))):
                    x = la[i] if i < len(la) else "<missing>"
                    y = lb[i] if i < len(lb) else "<missing>"
                    if x != y:
                        break
                line = x if x != "<missing>" else y
                if "CLOBBERED" in line or "CHANGED" in line:
                    kind = "machine-state-not-preserved:" + re.sub(r" by .*", "", line).replace(" ", "-").lower()
                elif "ALIGNED" in line:
                    kind = "stack-or-alloca-misaligned"
                else:
                    who = line.split(" ")[0]
                    fn = (re.search(r" (ret )?([fv])\d+:", line) or [None, None, "?"])[2]
                    kind = "%s-differs:%s" % ("variadic-argument" if fn == "v" else "return-value" if " ret " in line else "argument", who)
                out.append(("viol", "%s:%s" % (kind, ecls), shape, "case %d %s (seed %d):\n with MIR side: %s\n gcc only     : %s\n--- main.c\n%s\n--- ext.c\n%s" % (idx, en, seed, x, y, mainc, ext)))
            else:
                out.append(("ok", en, shape, ref.count("\n")))
    finally:
        subprocess.run(["rm", "-rf", d])
    return out


RULES = {
    "C05": ("one case = 3-6 native functions with 0-16 parameters of every C scalar type (char..long long signed/unsigned, _Bool, float, double, long "
            "double, pointers, and by-value structs of every passing class: one/two INTEGER, one/two SSE, INTEGER+SSE, SSE+INTEGER, mixed float/int, "
            "MEMORY; runs that overflow the 6 integer and 8 sse argument registers) and every scalar, struct or void result, plus 2-4 variadic "
            "native functions with 0-7 named integer and 0-9 named double parameters and tails of 0-14 int/long/unsigned/double/long double/pointer "
            "values; the caller is c2mir-compiled MIR run by the interpreter, by generated code at -O0..-O3, lazily and by lazy BB generation; "
            "boundary values of each type; every native callee prints what it received and checks that the stack is 16-byte aligned at the call. "
            "Oracle: the same two files compiled by gcc only. distinct = distinct signature sets"),
    "C06": ("as C05 in the other direction: gcc-compiled code calls c2mir-compiled MIR functions (fixed and variadic, reading their tail with "
            "va_arg) through their addresses, with sentinels in rbx, r12-r15 and the MXCSR / x87 control words sampled before the call; after the call "
            "the sentinels and control words must be unchanged; the MIR callee prints every parameter, allocates and uses a 16-byte aligned alloca "
            "block and calls out to native code; interfaces: interpreter shim, generated code at -O0..-O3, lazy, lazy BB. distinct = distinct signature sets"),
}


def run_mode(tier, prop, mode):
    res = common.Result(prop)
    th = tier == "thorough"
    seed = int(common.seed())
    c2m = os.path.join(build.build_lib("asan"), "c2m")
    n = 4000 if th else 150
    tmp = tempfile.mkdtemp(prefix="vp-%s-" % mode)
    try:
        with ThreadPoolExecutor(max_workers=common.NCPU) as ex:
            for results in ex.map(one_case, [(c2m, seed, i, tmp, mode) for i in range(n)]):
                res.counters["cases"] = res.counters.get("cases", 0) + 1
                for kind, fp, shape, detail in results:
                    if kind == "discard":
                        res.discarded[fp] = res.discarded.get(fp, 0) + 1
                    elif kind == "ok":
                        res.distinct.add(shape)
                        res.counters["runs_equal_%s" % fp] = res.counters.get("runs_equal_%s" % fp, 0) + 1
                        res.counters["lines_compared"] = res.counters.get("lines_compared", 0) + detail
                    else:
                        res.distinct.add(shape)
                        res.add_viol(fp, detail, cmd="./run %s --tier %s --seed %d" % (prop, tier, seed))
    finally:
        subprocess.run(["rm", "-rf", tmp])
    return common.finish(
        res, tier, RULES[prop],
        assumptions=["gcc on x86-64 Linux defines the C ABI; the MIR prototypes are the ones c2mir derives from the C declarations (block types for structs "
                     "are covered by C08)", "multiple-result MIR functions have no C counterpart and are covered by C01/C03/C04 only between MIR functions"],
        evaluations=res.counters.get("lines_compared", 0),
        floor={"cases": 80, "lines_compared": 2000})


def run(tier):
    return run_mode(tier, "C05", "c05")


def replay(path):
    print(open(path).read())
    return 0
