/* C20: the C translation of a module (mir2c) computes what interpreting the module computes.
   One case = one generated single-module program whose functions have at most one result (h/prog.h, PF_SINGLE_RESULT,
   no lref tables: label references have no C form in mir2c).  The module is scanned, translated with MIR_module2c under a
   watchdog, the translation unit is compiled by the reference C compiler into a shared object, loaded, and its entry is
   called on 6 input pairs; result, final buffer, module data (the data section is part of the translation) and the ordered
   external-call log are compared with MIR_interp on the same module.  The reference model is a third witness: when it
   disagrees with the interpreter the case is reported under a separate fingerprint.
   Compiler flags: -O1 -fwrapv -fno-strict-aliasing (the most lenient reading of "compiled and run": signed wrap-around and
   type punning in the emitted C are not held against the translator).  */
#define _GNU_SOURCE
#include "vp_mir.h"
#include "prog.h"
#include "mir2c/mir2c.h"
#include <dlfcn.h>
#include <sys/stat.h>
#include <sys/wait.h>

static long cur_case;
static uint64_t gseed;
static unsigned gfeat;
static char tmpd[512];

static uint8_t *mainbuf;
static void mainbuf_init (void) {
  long pg = sysconf (_SC_PAGESIZE);
  uint8_t *m = mmap (NULL, 3 * pg, PROT_READ | PROT_WRITE, MAP_PRIVATE | MAP_ANONYMOUS, -1, 0);
  mprotect (m, pg, PROT_NONE); mprotect (m + 2 * pg, pg, PROT_NONE);
  mainbuf = m + 2 * pg - PG_BUF;
}
static rm_log_t elog[RM_MAXLOG]; static int nelog;
/* not static: the translation refers to it by name */
int64_t ext_log (int64_t tag, int64_t a, int64_t b) {
  if (nelog < RM_MAXLOG) { elog[nelog].tag = tag; elog[nelog].a = a; elog[nelog].b = b; }
  nelog++;
  return (int64_t) ((uint64_t) a * 31u + ((uint64_t) b ^ (uint64_t) tag));
}

#define NIN 6
static const int64_t inputs[NIN][2] = {{0, 0}, {1, -1}, {0x7fffffffffffffffLL, 3}, {-987654321012LL, 255}, {0x80000000LL, 65537}, {42, (-9223372036854775807LL - 1)}};
typedef struct { int64_t res; uint8_t buf[PG_BUF], gdata[PG_BUF]; rm_log_t log[64]; int nlog; int ok; } obs_t;
static obs_t ref[NIN], itp[NIN];
static uint8_t buf_init[PG_BUF];
static char *ptext;
static prog_t prog;

static long n_prog, n_runs, n_translated_bytes, n_discard, n_funcs, n_cc_ms;
static long n_calls_total, n_loops_total, n_switch_total, n_ovf_total, n_fp_total, n_narrow_total, n_alloca_total, n_jmpi;

static const char *obs_diff (const obs_t *a, const obs_t *b, char *d, size_t dn) {
  if (a->res != b->res) { snprintf (d, dn, "result %lld, interpreter %lld", (long long) a->res, (long long) b->res); return "result"; }
  if (memcmp (a->buf, b->buf, PG_BUF) != 0) { int k = 0; while (a->buf[k] == b->buf[k]) k++; snprintf (d, dn, "buffer byte %d is %02x, interpreter %02x", k, a->buf[k], b->buf[k]); return "memory"; }
  if (memcmp (a->gdata, b->gdata, PG_BUF) != 0) { int k = 0; while (a->gdata[k] == b->gdata[k]) k++; snprintf (d, dn, "module data byte %d is %02x, interpreter %02x", k, a->gdata[k], b->gdata[k]); return "data"; }
  if (a->nlog != b->nlog) { snprintf (d, dn, "%d external calls, interpreter %d", a->nlog, b->nlog); return "extcalls"; }
  for (int k = 0; k < a->nlog && k < 64; k++)
    if (a->log[k].tag != b->log[k].tag || a->log[k].a != b->log[k].a || a->log[k].b != b->log[k].b) {
      snprintf (d, dn, "external call #%d is (%lld,%lld,%lld), interpreter (%lld,%lld,%lld)", k, (long long) a->log[k].tag, (long long) a->log[k].a, (long long) a->log[k].b,
                (long long) b->log[k].tag, (long long) b->log[k].a, (long long) b->log[k].b);
      return "extcalls"; }
  return NULL;
}
static void take_obs (obs_t *o, int64_t res, const uint8_t *gd) {
  o->res = res; memcpy (o->buf, mainbuf, PG_BUF); memcpy (o->gdata, gd, PG_BUF); o->nlog = nelog; memcpy (o->log, elog, sizeof (rm_log_t) * (size_t) (nelog < 64 ? nelog : 64)); o->ok = 1;
}

static void rm_file (const char *p) { unlink (p); }

static void run_case (long idx) {
  pg_gen_prog (&prog, gseed, idx, gfeat, 1);
  { MIR_context_t c0 = vp_new_ctx (); free (ptext); ptext = pg_print (c0, &prog); }
  vp_rng_t r = vp_case_rng (gseed, 0xc020, (uint64_t) idx);
  for (int i = 0; i < PG_BUF; i++) buf_init[i] = (uint8_t) vp_next (&r);
  char en[16]; snprintf (en, sizeof en, "fn%d", prog.nf - 1);
  /* ---- reference model */
  static rm_log_t rlog[RM_MAXLOG];
  for (int in = 0; in < NIN; in++) {
    rm_t rm; memset (&rm, 0, sizeof rm);
    obs_t *x = &ref[in];
    memcpy (x->buf, buf_init, PG_BUF); memcpy (x->gdata, prog.data_init, PG_BUF);
    rm.p = &prog; rm.buf = x->buf; rm.gdata = x->gdata; rm.log = rlog;
    int64_t ia[PG_MAXARGS] = {0, inputs[in][0], inputs[in][1]}; double da[PG_MAXARGS] = {0}; uint8_t *pa[PG_MAXARGS] = {x->buf};
    int64_t ri = 0; double rd = 0;
    rm_call (&rm, prog.nf - 1, ia, da, pa, &ri, &rd, 0);
    if (rm_oob) { rm_oob = 0; vp_viol ("harness-generated-out-of-range-access", "case=%ld the generated program touches memory outside a region\nprogram:\n%.9000s", cur_case, ptext); return; }
    if (rm.overflow || rm.nlog > 64) { vp_discard (rm.overflow ? "rm-step-bound" : "too-many-extcalls"); n_discard++; return; }
    x->res = ri; x->nlog = rm.nlog; memcpy (x->log, rlog, sizeof (rm_log_t) * (size_t) rm.nlog);
  }
  n_prog++; n_funcs += prog.nf;
  n_calls_total += prog.n_calls; n_loops_total += prog.n_loops; n_switch_total += prog.n_switch; n_ovf_total += prog.n_ovf; n_fp_total += prog.n_fp; n_narrow_total += prog.n_narrow; n_alloca_total += prog.n_alloca;
  if (prog.n_nodes >= 12 && (prog.n_loops || prog.n_calls)) vp_dist (prog.shape);
  /* ---- interpreter (the oracle the property names) and translation, from one context */
  MIR_context_t ctx = vp_new_ctx ();
  char cpath[600], sopath[600], errpath[600];
  snprintf (cpath, sizeof cpath, "%s/p%ld.c", tmpd, idx); snprintf (sopath, sizeof sopath, "%s/p%ld.so", tmpd, idx); snprintf (errpath, sizeof errpath, "%s/p%ld.err", tmpd, idx);
  MIR_module_t mod = NULL; MIR_item_t entry = NULL, gd = NULL;
  vp_watch (cur_case, "translate", 20);
  if (VP_TRY) {
    MIR_scan_string (ctx, ptext);
    mod = DLIST_HEAD (MIR_module_t, *MIR_get_module_list (ctx));
    FILE *cf = fopen (cpath, "w");
    if (cf == NULL) { perror (cpath); exit (2); }
    MIR_module2c (ctx, cf, mod);
    n_translated_bytes += ftell (cf);
    fclose (cf);
    VP_END;
  } else {
    vp_err_armed = 0; alarm (0);
    vp_viol ("translator-error:c20", "case=%ld scanning or MIR_module2c raised %s (%s)\nprogram:\n%.9000s", cur_case, vp_err_name (vp_err_type), vp_err_msg, ptext);
    rm_file (cpath); return;
  }
  alarm (0);
  /* compile */
  char cmd[2200];
  snprintf (cmd, sizeof cmd, "timeout 120 gcc -O1 -fwrapv -fno-strict-aliasing -w -shared -fPIC -o %s %s > %s 2>&1", sopath, cpath, errpath);
  int rc = system (cmd);
  if (rc != 0) {
    char eb[1500] = ""; FILE *ef = fopen (errpath, "r"); if (ef) { size_t k = fread (eb, 1, sizeof eb - 1, ef); eb[k] = 0; fclose (ef); }
    char kind[64] = "other"; const char *e1 = strstr (eb, "error: ");
    if (WIFEXITED (rc) && WEXITSTATUS (rc) == 124) snprintf (kind, sizeof kind, "cc-timeout");
    else if (e1) { int k = 0; e1 += 7; while (e1[k] && e1[k] != '\n' && e1[k] != '\'' && e1[k] != '"' && (e1[k] < '0' || e1[k] > '9') && k < 40) { kind[k] = e1[k] == ' ' ? '-' : e1[k]; k++; } kind[k] = 0; while (k > 0 && kind[k - 1] == '-') kind[--k] = 0; }
    char fp[128]; snprintf (fp, sizeof fp, "translation-rejected-by-cc:%s", kind);
    vp_viol (fp, "case=%ld the C compiler rejects the translation (status %d):\n%.1200s\nprogram:\n%.7000s", cur_case, rc, eb, ptext);
    if (!getenv ("VP_KEEP")) { rm_file (cpath); rm_file (errpath); rm_file (sopath); }
    return;
  }
  /* interpreter */
  vp_watch (cur_case, "interp", 120);
  if (VP_TRY) {
    MIR_load_module (ctx, mod);
    MIR_load_external (ctx, "ext_log", ext_log);
    MIR_link (ctx, MIR_set_interp_interface, NULL);
    for (MIR_item_t it = DLIST_HEAD (MIR_item_t, mod->items); it != NULL; it = DLIST_NEXT (MIR_item_t, it)) {
      if (it->item_type == MIR_func_item && !strcmp (it->u.func->name, en)) entry = it;
      if (it->item_type == MIR_data_item && it->u.data->name != NULL && !strcmp (it->u.data->name, "gdata")) gd = it;
    }
    for (int in = 0; in < NIN; in++) {
      MIR_val_t rv, v[3];
      memcpy (mainbuf, buf_init, PG_BUF); memcpy (gd->addr, prog.data_init, PG_BUF); nelog = 0;
      v[0].a = mainbuf; v[1].i = inputs[in][0]; v[2].i = inputs[in][1];
      MIR_interp_arr (ctx, entry, &rv, 3, v);
      take_obs (&itp[in], rv.i, gd->addr);
    }
    VP_END;
  } else {
    vp_err_armed = 0; alarm (0);
    vp_viol ("interp-error:c20", "case=%ld loading/linking/interpreting raised %s (%s)\nprogram:\n%.9000s", cur_case, vp_err_name (vp_err_type), vp_err_msg, ptext);
    goto cleanup;
  }
  alarm (0);
  for (int in = 0; in < NIN; in++) {
    char d[512]; const char *k = obs_diff (&itp[in], &ref[in], d, sizeof d);
    if (k) { char fp[96]; snprintf (fp, sizeof fp, "interp-differs-from-reference-model:%s", k); vp_viol (fp, "case=%ld input #%d: interpreter vs reference model (left is the interpreter): %s\nprogram:\n%.9000s", cur_case, in, d, ptext); goto cleanup; }
  }
  /* translation */
  {
    void *h = dlopen (sopath, RTLD_NOW | RTLD_LOCAL);
    if (h == NULL) { vp_viol ("translation-not-loadable", "case=%ld dlopen: %.300s\nprogram:\n%.9000s", cur_case, dlerror (), ptext); goto cleanup; }
    int64_t (*fn) (void *, int64_t, int64_t) = (int64_t (*) (void *, int64_t, int64_t)) dlsym (h, en);
    uint8_t *cgd = dlsym (h, "gdata");
    if (fn == NULL || cgd == NULL) { vp_viol ("translation-lacks-exported-symbol", "case=%ld %s%s not defined by the translation\nprogram:\n%.9000s", cur_case, fn ? "" : en, cgd ? "" : " gdata", ptext); dlclose (h); goto cleanup; }
    vp_watch (cur_case, "run-translation", 60);
    for (int in = 0; in < NIN; in++) {
      obs_t o;
      memcpy (mainbuf, buf_init, PG_BUF); memcpy (cgd, prog.data_init, PG_BUF); nelog = 0;
      int64_t res = fn (mainbuf, inputs[in][0], inputs[in][1]);
      take_obs (&o, res, cgd); n_runs++;
      char d[512]; const char *k = obs_diff (&o, &itp[in], d, sizeof d);
      if (k) {
        char fp[96]; snprintf (fp, sizeof fp, "%s-differs:c20", k);
        vp_viol (fp, "case=%ld input #%d (a=%lld b=%lld): translation: %s\nprogram (seed %llu, feat %u):\n%.9000s", cur_case, in, (long long) inputs[in][0], (long long) inputs[in][1], d, (unsigned long long) gseed, gfeat, ptext);
        break;
      }
    }
    alarm (0);
    dlclose (h);
  }
cleanup:
  if (!getenv ("VP_KEEP")) { rm_file (cpath); rm_file (errpath); rm_file (sopath); }
  if (VP_TRY) { MIR_finish (ctx); VP_END; }
  vp_err_armed = 0;
}

/* ------------------------------------------------------------------ --mode insn
   one case = one integer/conversion/branch/overflow opcode: a module with one function per pair of parameter types
   (i8..u64 x i8..u64); the insn reads the parameters in place (no copy into locals), so the C type the translator gives
   a parameter, the cast it puts on every operand and the width of every comparison are all exercised.  The translation and
   the interpreter are evaluated over the cross product of a boundary grid; operand values for which sem.h says the insn is
   undefined (division by zero, INT_MIN/-1) are skipped.  */
static const MIR_type_t ptypes[8] = {MIR_T_I64, MIR_T_U64, MIR_T_I32, MIR_T_U32, MIR_T_I16, MIR_T_U16, MIR_T_I8, MIR_T_U8};
static const char *ptnames[8] = {"i64", "u64", "i32", "u32", "i16", "u16", "i8", "u8"};
static const int64_t grid[] = {0, 1, 2, 3, 7, 8, 31, 32, 63, 64, 100, 127, 128, 255, 256, 32767, 32768, 65535, 65536, 0x7fffffffLL, 0x80000000LL, 0xffffffffLL, 0x100000000LL,
                               0x7fffffffffffffffLL, (-0x7fffffffffffffffLL - 1), -1, -2, -3, -8, -100, -128, -129, -32768, -32769, -0x80000000LL, -0x80000001LL, 0x123456789abcdefLL, -0x123456789abcdefLL};
#define NGRID ((int) (sizeof grid / sizeof grid[0]))
enum { IK_INT3, IK_INT2, IK_BR, IK_OVF, IK_CONV };
typedef struct { MIR_insn_code_t c; int kind, sub; } icase_t;
static icase_t icases[400]; static int nicases;
static void build_icases (void) {
  int64_t r; int t; rv_t x, y; int sk, dk; memset (&x, 0, sizeof x);
  for (int c = 0; c < MIR_INSN_BOUND; c++) {
    if (MIR_overflow_insn_code_p ((MIR_insn_code_t) c)) { for (int sub = 0; sub < 5; sub++) { icases[nicases].c = c; icases[nicases].kind = IK_OVF; icases[nicases++].sub = sub; } }
    else if (c != MIR_MOV && sem_int2 ((MIR_insn_code_t) c, 0, &r) >= 0) { icases[nicases].c = c; icases[nicases++].kind = IK_INT2; }
    else if (c == MIR_MOV) { icases[nicases].c = c; icases[nicases++].kind = IK_INT2; }
    else if (sem_int3 ((MIR_insn_code_t) c, 1, 1, &r, NULL, NULL) >= 0) { icases[nicases].c = c; icases[nicases++].kind = IK_INT3; }
    else if (sem_ibranch ((MIR_insn_code_t) c, 1, 1, &t) >= 0) { icases[nicases].c = c; icases[nicases++].kind = IK_BR; }
    else if (sem_conv ((MIR_insn_code_t) c, x, &y, &sk, &dk) >= 0 && sk == 'i') { icases[nicases].c = c; icases[nicases].kind = IK_CONV; icases[nicases++].sub = dk; }
  }
}
static long n_insn_evals, n_insn_funcs, n_insn_undef;
static void run_insn_case (long idx) {
  icase_t ic = icases[idx];
  const char *in = MIR_insn_name (NULL, ic.c);
  static const char *bk[] = {"", "bo", "bno", "ubo", "ubno"};
  int unary = ic.kind == IK_INT2 || ic.kind == IK_CONV || ic.c == MIR_BT || ic.c == MIR_BF || ic.c == MIR_BTS || ic.c == MIR_BFS;
  if (ic.kind == IK_OVF) { /* ubo/ubno after mulo and bo/bno after umulo are not defined */
    int so = 0, uo = 0; int64_t r; sem_int3 (ic.c, 1, 1, &r, &so, &uo);
    if ((ic.sub == 1 || ic.sub == 2) && so < 0) { vp_discard ("flag-not-defined-for-opcode"); return; }
    if ((ic.sub == 3 || ic.sub == 4) && uo < 0) { vp_discard ("flag-not-defined-for-opcode"); return; }
  }
  ptxt_t T = {0}, *t = &T;
  const char *rt = ic.kind == IK_CONV ? (ic.sub == 0 ? "f" : ic.sub == 1 ? "d" : "ld") : "i64";
  P (t, "m: module\n");
  int nf = 0;
  for (int t1 = 0; t1 < 8; t1++) for (int t2 = 0; t2 < (unary ? 1 : 8); t2++) {
    int k = t1 * 8 + t2; nf++;
    P (t, "export f%d\nf%d: func %s, %s:a1, %s:a2\n local i64:r, %s:x\n", k, k, rt, ptnames[t1], ptnames[t2], ic.kind == IK_CONV ? rt : "i64");
    switch (ic.kind) {
    case IK_INT3: P (t, " %s r, a1, a2\n ret r\n", in); break;
    case IK_INT2: P (t, " %s r, a1\n ret r\n", in); break;
    case IK_CONV: P (t, " %s x, a1\n ret x\n", in); break;
    case IK_BR: if (unary) P (t, " %s L%d, a1\n ret 0\nL%d:\n ret 1\n", in, k, k); else P (t, " %s L%d, a1, a2\n ret 0\nL%d:\n ret 1\n", in, k, k); break;
    case IK_OVF: if (ic.sub == 0) P (t, " %s r, a1, a2\n ret r\n", in); else P (t, " %s r, a1, a2\n %s L%d\n ret 0\nL%d:\n ret 1\n", in, bk[ic.sub], k, k); break;
    }
    P (t, " endfunc\n");
  }
  P (t, "endmodule\n");
  free (ptext); ptext = t->s;
  n_prog++; n_insn_funcs += nf;
  MIR_context_t ctx = vp_new_ctx ();
  char cpath[600], sopath[600], errpath[600];
  snprintf (cpath, sizeof cpath, "%s/i%ld.c", tmpd, idx); snprintf (sopath, sizeof sopath, "%s/i%ld.so", tmpd, idx); snprintf (errpath, sizeof errpath, "%s/i%ld.err", tmpd, idx);
  MIR_module_t mod = NULL;
  vp_watch (cur_case, "translate", 20);
  if (VP_TRY) {
    MIR_scan_string (ctx, ptext);
    mod = DLIST_HEAD (MIR_module_t, *MIR_get_module_list (ctx));
    FILE *cf = fopen (cpath, "w"); if (cf == NULL) { perror (cpath); exit (2); }
    MIR_module2c (ctx, cf, mod); n_translated_bytes += ftell (cf); fclose (cf);
    VP_END;
  } else { vp_err_armed = 0; alarm (0); vp_viol ("translator-error:insn", "case=%ld (%s) scanning or MIR_module2c raised %s (%s)", cur_case, in, vp_err_name (vp_err_type), vp_err_msg); rm_file (cpath); return; }
  alarm (0);
  char cmd[2200];
  snprintf (cmd, sizeof cmd, "timeout 120 gcc -O1 -fwrapv -fno-strict-aliasing -w -shared -fPIC -o %s %s > %s 2>&1", sopath, cpath, errpath);
  int rc = system (cmd);
  if (rc != 0) {
    char eb[1200] = ""; FILE *ef = fopen (errpath, "r"); if (ef) { size_t k = fread (eb, 1, sizeof eb - 1, ef); eb[k] = 0; fclose (ef); }
    vp_viol ("translation-rejected-by-cc:insn", "case=%ld (%s %s) the C compiler rejects the translation (status %d):\n%.1000s", cur_case, in, bk[ic.kind == IK_OVF ? ic.sub : 0], rc, eb);
    if (!getenv ("VP_KEEP")) { rm_file (cpath); rm_file (errpath); rm_file (sopath); }
    return;
  }
  void *h = NULL;
  if (VP_TRY) { MIR_load_module (ctx, mod); MIR_link (ctx, MIR_set_interp_interface, NULL); VP_END; }
  else { vp_err_armed = 0; vp_viol ("interp-error:insn", "case=%ld (%s) load/link raised %s (%s)", cur_case, in, vp_err_name (vp_err_type), vp_err_msg); goto done; }
  h = dlopen (sopath, RTLD_NOW | RTLD_LOCAL);
  if (h == NULL) { vp_viol ("translation-not-loadable", "case=%ld dlopen: %.300s", cur_case, dlerror ()); goto done; }
  vp_watch (cur_case, "run-translation", 120);
  int reported = 0;
  for (MIR_item_t it = DLIST_HEAD (MIR_item_t, mod->items); it != NULL && !reported; it = DLIST_NEXT (MIR_item_t, it)) {
    if (it->item_type != MIR_func_item) continue;
    int k = atoi (it->u.func->name + 1), t1 = k / 8, t2 = k % 8;
    void *cf = dlsym (h, it->u.func->name);
    if (cf == NULL) { vp_viol ("translation-lacks-exported-symbol", "case=%ld %s", cur_case, it->u.func->name); break; }
    for (int i = 0; i < NGRID && !reported; i++) for (int j = 0; j < (unary ? 1 : NGRID) && !reported; j++) {
      int64_t a = sem_narrow (ptypes[t1], grid[i]), b = sem_narrow (ptypes[t2], grid[j]), r;
      if ((ic.kind == IK_INT3 || ic.kind == IK_OVF) && sem_int3 (ic.c, a, b, &r, NULL, NULL) == SEM_UNDEF) { n_insn_undef++; continue; }
      n_insn_evals++;
      if (ic.kind == IK_CONV) {
        long double ri, rc2;
        if (ic.sub == 0) { ri = ((float (*) (int64_t, int64_t)) it->addr) (a, b); rc2 = ((float (*) (int64_t, int64_t)) cf) (a, b); }
        else if (ic.sub == 1) { ri = ((double (*) (int64_t, int64_t)) it->addr) (a, b); rc2 = ((double (*) (int64_t, int64_t)) cf) (a, b); }
        else { ri = ((long double (*) (int64_t, int64_t)) it->addr) (a, b); rc2 = ((long double (*) (int64_t, int64_t)) cf) (a, b); }
        if (ri != rc2) { char fp[96]; snprintf (fp, sizeof fp, "insn-result-differs:%s", in); vp_viol (fp, "case=%ld %s x, a1 with a1 of type %s = %lld: translation %.21Lg, interpreter %.21Lg\n%.3000s", cur_case, in, ptnames[t1], (long long) a, rc2, ri, ptext); reported = 1; }
      } else {
        int64_t ri = ((int64_t (*) (int64_t, int64_t)) it->addr) (a, b), rc2 = ((int64_t (*) (int64_t, int64_t)) cf) (a, b);
        if (sem_is32 (ic.c) && (ic.kind == IK_INT3 || ic.kind == IK_INT2 || (ic.kind == IK_OVF && ic.sub == 0))) { ri = (int32_t) ri; rc2 = (int32_t) rc2; }
        if (ri != rc2) {
          char fp[96]; snprintf (fp, sizeof fp, "insn-result-differs:%s%s%s", in, ic.kind == IK_OVF && ic.sub ? "+" : "", ic.kind == IK_OVF ? bk[ic.sub] : "");
          vp_viol (fp, "case=%ld %s with a1 (%s) = %lld, a2 (%s) = %lld: translation %lld, interpreter %lld\nfunction f%d of\n%.3000s", cur_case, in, ptnames[t1], (long long) a, ptnames[t2], (long long) b, (long long) rc2, (long long) ri, k, ptext);
          reported = 1;
        }
      }
    }
  }
  alarm (0);
done:
  if (h) dlclose (h);
  if (!getenv ("VP_KEEP")) { rm_file (cpath); rm_file (errpath); rm_file (sopath); }
  if (VP_TRY) { MIR_finish (ctx); VP_END; }
  vp_err_armed = 0;
}

static void crash_handler (int sig) {
  /* a fault inside the loaded translation: report it as a verdict on this case and let the driver restart after it */
  char b[200]; int n = snprintf (b, sizeof b, "VIOL translation-crash:%s | case=%ld signal %d while %s\n", vp_watch_phase, cur_case, sig, vp_watch_phase);
  if (write (1, b, (size_t) n) < 0) {}
  _exit (99);
}

int main (int argc, char **argv) {
  vp_args_t a = vp_parse_args (argc, argv);
  gseed = a.seed; gfeat = (unsigned) strtoul (a.extra[0] ? a.extra : "0", 0, 0) | PF_SINGLE_RESULT | PF_NO_LREF;
  mainbuf_init ();
  vp_watch_fp = "hang";
  const char *td = getenv ("VP_TMP") ? getenv ("VP_TMP") : getenv ("TMPDIR") ? getenv ("TMPDIR") : "/tmp";
  snprintf (tmpd, sizeof tmpd, "%s/vp-c20-%ld", td, (long) getpid ());
  mkdir (tmpd, 0700);
  int dump = 0; for (int i = 1; i < argc; i++) if (!strcmp (argv[i], "--dump")) dump = 1;
  signal (SIGSEGV, crash_handler); signal (SIGBUS, crash_handler); signal (SIGFPE, crash_handler); signal (SIGILL, crash_handler);
  long done = 0;
  int insn_mode = !strcmp (a.mode, "insn");
  if (insn_mode) { build_icases (); for (int i = 1; i < argc; i++) if (!strcmp (argv[i], "--query")) { printf ("TOTAL %d\n", nicases); return 0; } }
  for (long c = a.start; c < a.start + a.count; c++) {
    cur_case = c; vp_case_begin (c);
    if (insn_mode) { if (c < nicases) { vp_watch_phase = "harness"; run_insn_case (c); done++; fflush (stdout); } continue; }
    if (dump) { pg_gen_prog (&prog, gseed, c, gfeat, 1); MIR_context_t c0 = vp_new_ctx (); puts (pg_print (c0, &prog)); continue; }
    vp_watch_phase = "harness";
    run_case (c); done++;
    fflush (stdout);
  }
  rmdir (tmpd);
  if (a.start == 0 && ptext) vp_sample ("%.5000s", ptext);
  if (insn_mode) { printf ("EV insn_cases %ld\nEV insn_functions %ld\nEV insn_evaluations %ld\nEV insn_undefined_skipped %ld\n", done, n_insn_funcs, n_insn_evals, n_insn_undef); return 0; }
  printf ("EV cases %ld\nEV programs %ld\nEV functions %ld\nEV translation_runs %ld\nEV translated_bytes %ld\nEV calls %ld\nEV loops %ld\nEV switches %ld\nEV overflow_branches %ld\nEV fp_stmts %ld\nEV narrow_types %ld\nEV allocas %ld\n",
          done, n_prog, n_funcs, n_runs, n_translated_bytes, n_calls_total, n_loops_total, n_switch_total, n_ovf_total, n_fp_total, n_narrow_total, n_alloca_total);
  return 0;
}
