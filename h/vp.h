/* Common helpers for /verif harnesses: PRNG, progress reporting, output protocol (see vlib/common.py). */
#ifndef VP_H
#define VP_H
#include <stdint.h>
#include <stdio.h>
#include <stdlib.h>
#include <string.h>
#include <stdarg.h>
#include <unistd.h>
#include <fcntl.h>
#include <signal.h>
#include <sys/resource.h>

typedef struct { uint64_t s; } vp_rng_t;

static inline uint64_t vp_splitmix (uint64_t *s) {
  uint64_t z = (*s += 0x9E3779B97F4A7C15ull);
  z = (z ^ (z >> 30)) * 0xBF58476D1CE4E5B9ull;
  z = (z ^ (z >> 27)) * 0x94D049BB133111EBull;
  return z ^ (z >> 31);
}
static inline uint64_t vp_next (vp_rng_t *r) { return vp_splitmix (&r->s); }
static inline uint64_t vp_below (vp_rng_t *r, uint64_t n) { return n == 0 ? 0 : vp_next (r) % n; }
static inline int vp_chance (vp_rng_t *r, int pct) { return (int) (vp_next (r) % 100) < pct; }
static inline int64_t vp_range (vp_rng_t *r, int64_t lo, int64_t hi) { /* inclusive */
  return lo + (int64_t) vp_below (r, (uint64_t) (hi - lo + 1));
}
/* per-case stream derived from (seed, property tag, case index) so any case regenerates alone */
static inline vp_rng_t vp_case_rng (uint64_t seed, uint64_t tag, uint64_t idx) {
  uint64_t s = seed * 0x2545F4914F6CDD1Dull + tag * 0x9E3779B97F4A7C15ull;
  vp_splitmix (&s);
  s ^= idx * 0xD6E8FEB86659FD93ull;
  vp_splitmix (&s);
  vp_rng_t r = {s};
  return r;
}

static int vp_progress_fd = -2;
static inline void vp_case_begin (long idx) {
  if (vp_progress_fd == -2) {
    const char *p = getenv ("VP_PROGRESS_FILE");
    vp_progress_fd = p ? open (p, O_WRONLY) : -1;
  }
  if (vp_progress_fd >= 0) {
    char b[32];
    int n = snprintf (b, sizeof (b), "%-20ld\n", idx);
    if (pwrite (vp_progress_fd, b, n, 0) < 0) {}
  }
}

static inline void vp_esc (FILE *f, const char *s) {
  for (; *s; s++) {
    if (*s == '\n') fputs ("\\n", f);
    else fputc (*s, f);
  }
}
static inline void vp_ev (const char *name, long n) { printf ("EV %s %ld\n", name, n); }
static inline void vp_max (const char *name, long n) { printf ("MAX %s %ld\n", name, n); }
static inline void vp_dist (uint64_t h) { printf ("DIST %016llx\n", (unsigned long long) h); }
static inline void vp_sample (const char *fmt, ...) {
  char buf[8192];
  va_list ap;
  va_start (ap, fmt);
  vsnprintf (buf, sizeof (buf), fmt, ap);
  va_end (ap);
  fputs ("SAMPLE ", stdout);
  vp_esc (stdout, buf);
  fputc ('\n', stdout);
}
static inline void vp_viol (const char *fp, const char *fmt, ...) {
  char buf[16384];
  va_list ap;
  va_start (ap, fmt);
  vsnprintf (buf, sizeof (buf), fmt, ap);
  va_end (ap);
  printf ("VIOL %s | ", fp);
  vp_esc (stdout, buf);
  fputc ('\n', stdout);
  fflush (stdout);
}
static inline void vp_discard (const char *reason) { printf ("DISCARD %s\n", reason); }

static inline uint64_t vp_hash_mix (uint64_t h, uint64_t v) {
  h ^= v + 0x9E3779B97F4A7C15ull + (h << 6) + (h >> 2);
  return h * 0xff51afd7ed558ccdull;
}

/* common argument parsing: --seed N --start I --count N --verbose + harness-specific via callback */
typedef struct {
  uint64_t seed;
  long start, count;
  int verbose;
  int tier; /* 0 quick 1 thorough */
  const char *mode;
  const char *extra;
} vp_args_t;

static inline vp_args_t vp_parse_args (int argc, char **argv) {
  vp_args_t a = {1, 0, 1, 0, 0, "", ""};
  { /* no file written by the code under test (or by a tool started for it) grows beyond 16 MB: a translator or printer that loops
       forever must not fill the disk before the watchdog fires; the write fails with EFBIG instead */
    struct rlimit rl = {16l << 20, 16l << 20};
    setrlimit (RLIMIT_FSIZE, &rl); signal (SIGXFSZ, SIG_IGN);
  }
  for (int i = 1; i < argc; i++) {
    if (!strcmp (argv[i], "--seed") && i + 1 < argc) a.seed = strtoull (argv[++i], 0, 0);
    else if (!strcmp (argv[i], "--start") && i + 1 < argc) a.start = atol (argv[++i]);
    else if (!strcmp (argv[i], "--count") && i + 1 < argc) a.count = atol (argv[++i]);
    else if (!strcmp (argv[i], "--verbose")) a.verbose = 1;
    else if (!strcmp (argv[i], "--tier") && i + 1 < argc) a.tier = !strcmp (argv[++i], "thorough");
    else if (!strcmp (argv[i], "--mode") && i + 1 < argc) a.mode = argv[++i];
    else if (!strcmp (argv[i], "--extra") && i + 1 < argc) a.extra = argv[++i];
  }
  return a;
}
#endif
