"""C02: per-instruction semantics on the boundary grid, every operand form, six engines (fast + asan builds)."""
import re
import subprocess
from vlib import build, common

RULE = ("one case = one opcode (every non-control opcode and every compare/branch opcode): a module with one function per operand form - registers, "
        "dst==src1, dst==src2, src1==src2, memory of every legal type for every operand (narrow loads extend, narrow stores truncate and must "
        "not clobber neighbours), base+index*scale+disp addressing, immediates specialised per grid value in either position, both immediates "
        "(constant folding) - evaluated over the full cross product of a 46-value integer grid / 30-value FP grid on interp, interp through "
        "the C interface and gen -O0..-O3, compared with the reference semantics of h/sem.h. The opcode x form space is enumerated completely")


def run(tier):
    res = common.Result("C02")
    for cfg in (("fast", "asan") if tier == "thorough" else ("fast", "asan")):
        exe = build.build_harness("c02", ["c02_insn.c"], cfg)
        out = subprocess.run([exe, "--query"], stdout=subprocess.PIPE, text=True).stdout
        n = int(re.search(r"TOTAL (\d+)", out).group(1))
        common.run_sharded(res, exe, ["--tier", tier], n, env=common.ASAN_ENV, timeout=3000, nshards=min(n, common.NCPU * 3))
    return common.finish(
        res, tier, RULE,
        assumptions=["h/sem.h is a faithful transcription of MIR.md's instruction semantics (DESIGN.md appendix B)",
                     "results MIR.md leaves undefined (upper half of 32-bit results, division by zero, INT_MIN/-1, shift counts >= width, "
                     "FP->int of NaN/out-of-range, long double padding bytes) are not compared; all NaNs are one class"],
        extra={"exhaustive": True, "exhaustive_subspace": "opcode x operand form x engine; values are the boundary grid, not all 2^64"},
        evaluations=res.counters.get("evaluations", 0),
        floor={"evaluations": 1000000, "functions": 5000})


def replay(path):
    print(open(path).read())
    return 0
