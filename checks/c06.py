"""C06: MIR functions are correct C-ABI callees and preserve the caller's machine state (see checks/c05.py)."""
from checks import c05


def run(tier):
    return c05.run_mode(tier, "C06", "c06")


replay = c05.replay
