"""C11: binary round trip (MIR_write / MIR_read) of API-built modules, deterministic bytes (fast + asan builds)."""
from checks import c10


def run(tier):
    # feature 1 = non-finite FP immediates allowed (binary must preserve them bit for bit)
    return c10.run(tier, prop="C11", mode="binary", feat=1 | 512, harness="c10")


def replay(path):
    print(open(path).read())
    return 0
