#!/bin/sh
# Builds /repo/_build with the MIR_VERIF guard OFF (plain upstream CMake build) and runs the 45 pinned tests.
# The optional l2m target (llvm2mir) does not compile on the pinned tree (stale API use, unrelated to the tests), hence -k 0.
set -u
cmake -G Ninja -S /repo -B /repo/_build -DCMAKE_BUILD_TYPE=RelWithDebInfo >/dev/null || exit 2
cmake --build /repo/_build -j16 -- -k 0 >/tmp/vp-baseline-build.log 2>&1
ctest --test-dir /repo/_build -j8 --timeout 900 "$@"
