/* Random MIR module builder through the public API (full item / insn / operand vocabulary) and a structural
   comparison of two modules living in different contexts.  Used by C10, C11, C14, C16.
   The same (seed, index, features) always builds the same module, so it can be rebuilt in another context. */
#ifndef VP_MODGEN_H
#define VP_MODGEN_H
#include <math.h>
#include <float.h>
#include "vp_mir.h"
#include "optable.h"

#define MG_NONFINITE_FP 1   /* allow inf/nan immediates (binary only) */
#define MG_NO_EXPR 2        /* skip expr data items */
#define MG_NO_LREF 4        /* skip lref data items */
#define MG_NO_UNDEF_MEM 8   /* skip undef-typed va_list memory operands */
#define MG_NO_PDATA 16      /* skip data items of element type p */
#define MG_EXEC_ONLY 32     /* only executable entry functions and what they need (no vocabulary functions) */
#define MG_NO_LD_IMM 64     /* no long double immediates */
#define MG_BIG 128          /* large module (multi compression buffer) */
#define MG_NO_GLOBAL_REGS 256
#define MG_STR_NO_NUL 512   /* allow string operands whose last byte is not NUL (not representable in MIR text) */

#define MG_MAX_ENTRIES 6
typedef struct {
  int n_entries;
  char entry_name[MG_MAX_ENTRIES][24];
  int n_items, n_funcs, n_insns;
  uint64_t item_kinds;  /* bit per item type seen */
  uint64_t data_types;  /* bit per data element type */
  uint64_t op_kinds;    /* bit per operand kind emitted in vocabulary functions */
  uint64_t shape_hash;
  int has_lref, has_expr, has_str_op, n_str_bytes_distinct;
} mg_info_t;

typedef struct {
  MIR_context_t ctx;
  vp_rng_t r;
  unsigned feat;
  mg_info_t *info;
  int uniq;
  /* module-level things visible to function generators */
  MIR_item_t protos[8]; int nprotos; int proto_kind[8];
  MIR_item_t p_ent, p_void, imp_fn, imp_data;
  MIR_item_t datas[32]; int ndatas;
  MIR_item_t fwd_items[8]; int nfwd;
  MIR_item_t ent_items[MG_MAX_ENTRIES];
  uint8_t strbytes[256];
} mg_t;

static const int64_t mg_ints[] = {0, 1, -1, 2, -2, 7, 8, 127, 128, -128, -129, 255, 256, 32767, 32768, -32768, 65535, 65536,
                                  2147483647LL, 2147483648LL, -2147483648LL, -2147483649LL, 4294967295LL, 4294967296LL,
                                  9223372036854775807LL, (-9223372036854775807LL - 1), 0x0123456789abcdefLL, 0x7fffffffffffff00LL, 1000000007LL};
#define MG_NINTS ((int) (sizeof mg_ints / sizeof mg_ints[0]))
static int64_t mg_int (mg_t *g) { return vp_chance (&g->r, 75) ? mg_ints[vp_below (&g->r, MG_NINTS)] : (int64_t) vp_next (&g->r); }
static double mg_double (mg_t *g) {
  static const double v[] = {0.0, -0.0, 1.0, -1.0, 0.5, 1.5, 3.141592653589793, 1e-300, 1e300, DBL_MAX, DBL_MIN, 4.9406564584124654e-324, 9223372036854775808.0,
                             18446744073709551616.0, 0.1, 1.0 / 3.0, 123456789.125, -2.5e-7};
  if (vp_chance (&g->r, 70)) return v[vp_below (&g->r, sizeof v / sizeof v[0])];
  if ((g->feat & MG_NONFINITE_FP) && vp_chance (&g->r, 40)) {
    switch (vp_below (&g->r, 4)) {
    case 0: return INFINITY;
    case 1: return -INFINITY;
    case 2: return NAN;
    default: { union { uint64_t u; double d; } x; x.u = 0x7ff8000000000000ull | (vp_next (&g->r) & 0x7ffffffffffffull) | (vp_next (&g->r) & 0x8000000000000000ull); return x.d; }
    }
  }
  for (;;) { union { uint64_t u; double d; } x; x.u = vp_next (&g->r); if (isfinite (x.d)) return x.d; }
}
static float mg_float (mg_t *g) {
  static const float v[] = {0.0f, -0.0f, 1.0f, -1.5f, 3.14159274f, FLT_MAX, FLT_MIN, 1.40129846e-45f, 0.1f, 16777216.0f, 16777217.0f};
  if (vp_chance (&g->r, 70)) return v[vp_below (&g->r, sizeof v / sizeof v[0])];
  if ((g->feat & MG_NONFINITE_FP) && vp_chance (&g->r, 40)) {
    switch (vp_below (&g->r, 3)) {
    case 0: return INFINITY;
    case 1: return -INFINITY;
    default: { union { uint32_t u; float f; } x; x.u = 0x7fc00000u | ((uint32_t) vp_next (&g->r) & 0x803fffffu); return x.f; }
    }
  }
  for (;;) { union { uint32_t u; float f; } x; x.u = (uint32_t) vp_next (&g->r); if (isfinite (x.f)) return x.f; }
}
static long double mg_ldouble (mg_t *g) {
  static const long double v[] = {0.0L, -0.0L, 1.0L, -1.5L, 3.14159265358979323846264338327950288L, LDBL_MAX, LDBL_MIN, 0.1L, 18446744073709551615.0L, 1.0L / 3.0L};
  if (vp_chance (&g->r, 70)) return v[vp_below (&g->r, sizeof v / sizeof v[0])];
  if ((g->feat & MG_NONFINITE_FP) && vp_chance (&g->r, 40)) return vp_chance (&g->r, 50) ? (long double) INFINITY : (long double) NAN;
  long double m = (long double) (int64_t) vp_next (&g->r);
  return ldexpl (m, (int) vp_range (&g->r, -200, 200));
}
static const char *mg_name (mg_t *g, const char *prefix) {
  static char buf[8][40]; static int k;
  char *b = buf[k++ & 7];
  static const char *deco[] = {"", "_x", "$y", ".z", "_"};
  snprintf (b, 40, "%s%d%s", prefix, g->uniq++, deco[vp_below (&g->r, 5)]);
  return b;
}

/* ---------------- protos */
static void mg_rand_sig (mg_t *g, MIR_var_t *args, int *nargs, MIR_type_t *res, int *nres, int allow_blk, char names[][16]) {
  static const MIR_type_t at[] = {MIR_T_I8, MIR_T_U8, MIR_T_I16, MIR_T_U16, MIR_T_I32, MIR_T_U32, MIR_T_I64, MIR_T_U64, MIR_T_P, MIR_T_F, MIR_T_D, MIR_T_LD};
  *nargs = (int) vp_below (&g->r, 7);
  for (int i = 0; i < *nargs; i++) {
    snprintf (names[i], 16, "a%d", i);
    args[i].name = names[i]; args[i].size = 0;
    if (allow_blk && vp_chance (&g->r, 25)) {
      args[i].type = vp_chance (&g->r, 20) ? MIR_T_RBLK : (MIR_type_t) (MIR_T_BLK + vp_below (&g->r, MIR_BLK_NUM));
      args[i].size = (size_t[]){1, 7, 8, 16, 24, 100}[vp_below (&g->r, 6)];
      if (args[i].type > MIR_T_BLK && args[i].type < MIR_T_RBLK) args[i].size = 9 + vp_below (&g->r, 8); /* register classes: two eightbytes */
    } else
      args[i].type = at[vp_below (&g->r, 12)];
  }
  /* x86-64: up to two int, two fp, two ld results */
  int ni = 0, nf = 0, nl = 0, n = (int) vp_below (&g->r, 4);
  *nres = 0;
  for (int i = 0; i < n; i++) {
    MIR_type_t t = at[vp_below (&g->r, 12)];
    if (t == MIR_T_LD) { if (nl++ >= 2) continue; }
    else if (t == MIR_T_F || t == MIR_T_D) { if (nf++ >= 2) continue; }
    else if (ni++ >= 2) continue;
    res[(*nres)++] = t;
  }
}

/* ---------------- operands for vocabulary functions */
typedef struct {
  MIR_item_t func;
  MIR_reg_t ri[4], rf[2], rd[2], rld[2];
  MIR_label_t labs[6]; int nlabs;
  int vararg;
} fenv_t;

static MIR_op_t mg_mem (mg_t *g, fenv_t *e, MIR_type_t t) {
  static const int64_t disps[] = {0, 0, 8, -8, 127, 128, -128, -129, 2147483647LL, -2147483648LL, 2147483648LL, 0x100000000LL, -1};
  MIR_reg_t base = vp_chance (&g->r, 85) ? e->ri[vp_below (&g->r, 4)] : 0;
  MIR_reg_t index = vp_chance (&g->r, 35) ? e->ri[vp_below (&g->r, 4)] : 0;
  MIR_scale_t scale = index ? (MIR_scale_t) (1 << vp_below (&g->r, 4)) : 1;
  int64_t disp = disps[vp_below (&g->r, sizeof disps / sizeof disps[0])];
  if (base == 0 && index == 0 && disp == 0) disp = 4096; /* an absolute address, but not the degenerate all-zero operand */
  if (vp_chance (&g->r, 30)) {
    static const char *an[] = {"A", "B", "stack", "heap_1"};
    MIR_alias_t al = vp_chance (&g->r, 60) ? MIR_alias (g->ctx, an[vp_below (&g->r, 4)]) : 0;
    MIR_alias_t nal = vp_chance (&g->r, 60) ? MIR_alias (g->ctx, an[vp_below (&g->r, 4)]) : 0;
    return MIR_new_alias_mem_op (g->ctx, t, disp, base, index, scale, al, nal);
  }
  return MIR_new_mem_op (g->ctx, t, disp, base, index, scale);
}
static MIR_op_t mg_str_op (mg_t *g) {
  static char sb[4][64]; static int k;
  char *s = sb[k++ & 3];
  size_t len = 1 + vp_below (&g->r, 20);
  for (size_t i = 0; i + 1 < len; i++) { s[i] = (char) (vp_chance (&g->r, 50) ? vp_next (&g->r) : "a\"\\\n\t 07x"[vp_below (&g->r, 10)]); g->strbytes[(uint8_t) s[i]] = 1; }
  if (vp_chance (&g->r, 85) || !(g->feat & MG_STR_NO_NUL)) s[len - 1] = 0; else s[len - 1] = 'z';
  g->info->has_str_op = 1;
  return MIR_new_str_op (g->ctx, (MIR_str_t){len, s});
}
static MIR_op_t mg_ref_op (mg_t *g) {
  switch (vp_below (&g->r, 4)) {
  case 0: if (g->ndatas) return MIR_new_ref_op (g->ctx, g->datas[vp_below (&g->r, g->ndatas)]); /* fall through */
  case 1: return MIR_new_ref_op (g->ctx, g->imp_fn);
  case 2: if (g->nfwd) return MIR_new_ref_op (g->ctx, g->fwd_items[vp_below (&g->r, g->nfwd)]); /* fall through */
  default: return MIR_new_ref_op (g->ctx, g->imp_data);
  }
}
/* a valid operand of class c */
static MIR_op_t mg_op (mg_t *g, fenv_t *e, enum cls c) {
  MIR_context_t ctx = g->ctx;
  static const MIR_type_t imt[] = {MIR_T_I8, MIR_T_U8, MIR_T_I16, MIR_T_U16, MIR_T_I32, MIR_T_U32, MIR_T_I64, MIR_T_U64, MIR_T_P};
  int p = (int) vp_below (&g->r, 100);
  switch (c) {
  case C_iO: if (p < 60) { g->info->op_kinds |= 1ull << K_Ri; return MIR_new_reg_op (ctx, e->ri[vp_below (&g->r, 4)]); }
    { int k = (int) vp_below (&g->r, 9); g->info->op_kinds |= 1ull << (K_Mi8 + k); return mg_mem (g, e, imt[k]); }
  case C_iI:
    if (p < 40) { g->info->op_kinds |= 1ull << K_Ri; return MIR_new_reg_op (ctx, e->ri[vp_below (&g->r, 4)]); }
    if (p < 60) { g->info->op_kinds |= 1ull << K_Ii; return MIR_new_int_op (ctx, mg_int (g)); }
    if (p < 66) { g->info->op_kinds |= 1ull << K_Iu; return MIR_new_uint_op (ctx, (uint64_t) mg_int (g)); }
    if (p < 72) { g->info->op_kinds |= 1ull << K_REFdata; return mg_ref_op (g); }
    if (p < 76) { g->info->op_kinds |= 1ull << K_STR; return mg_str_op (g); }
    { int k = (int) vp_below (&g->r, 9); g->info->op_kinds |= 1ull << (K_Mi8 + k); return mg_mem (g, e, imt[k]); }
  case C_fO: if (p < 60) { g->info->op_kinds |= 1ull << K_Rf; return MIR_new_reg_op (ctx, e->rf[vp_below (&g->r, 2)]); } g->info->op_kinds |= 1ull << K_Mf; return mg_mem (g, e, MIR_T_F);
  case C_dO: if (p < 60) { g->info->op_kinds |= 1ull << K_Rd; return MIR_new_reg_op (ctx, e->rd[vp_below (&g->r, 2)]); } g->info->op_kinds |= 1ull << K_Md; return mg_mem (g, e, MIR_T_D);
  case C_ldO: if (p < 60) { g->info->op_kinds |= 1ull << K_Rld; return MIR_new_reg_op (ctx, e->rld[vp_below (&g->r, 2)]); } g->info->op_kinds |= 1ull << K_Mld; return mg_mem (g, e, MIR_T_LD);
  case C_fI: if (p < 45) return MIR_new_reg_op (ctx, e->rf[vp_below (&g->r, 2)]); if (p < 75) { g->info->op_kinds |= 1ull << K_If; return MIR_new_float_op (ctx, mg_float (g)); } return mg_mem (g, e, MIR_T_F);
  case C_dI: if (p < 45) return MIR_new_reg_op (ctx, e->rd[vp_below (&g->r, 2)]); if (p < 75) { g->info->op_kinds |= 1ull << K_Id; return MIR_new_double_op (ctx, mg_double (g)); } return mg_mem (g, e, MIR_T_D);
  case C_ldI: if (p < 45 || (g->feat & MG_NO_LD_IMM)) return MIR_new_reg_op (ctx, e->rld[vp_below (&g->r, 2)]); if (p < 75) { g->info->op_kinds |= 1ull << K_Ild; return MIR_new_ldouble_op (ctx, mg_ldouble (g)); } return mg_mem (g, e, MIR_T_LD);
  case C_LAB: g->info->op_kinds |= 1ull << K_L; return MIR_new_label_op (ctx, e->labs[vp_below (&g->r, e->nlabs)]);
  case C_VAR: return MIR_new_reg_op (ctx, e->ri[vp_below (&g->r, 4)]);
  case C_VA:
    if (p < 60 || (g->feat & MG_NO_UNDEF_MEM)) return MIR_new_reg_op (ctx, e->ri[vp_below (&g->r, 4)]);
    g->info->op_kinds |= 1ull << K_Mundef; return MIR_new_mem_op (ctx, MIR_T_UNDEF, 0, e->ri[vp_below (&g->r, 4)], 0, 1);
  case C_ANYMEM: { static const MIR_type_t t[] = {MIR_T_I8, MIR_T_U16, MIR_T_I32, MIR_T_U32, MIR_T_I64, MIR_T_U64, MIR_T_P, MIR_T_F, MIR_T_D, MIR_T_LD}; return MIR_new_mem_op (ctx, t[vp_below (&g->r, 10)], 0, 0, 0, 1); }
  case C_PROPV: return p < 70 ? MIR_new_reg_op (ctx, e->ri[vp_below (&g->r, 4)]) : mg_mem (g, e, MIR_T_I64);
  case C_IIMM: return MIR_new_int_op (ctx, (int64_t) vp_below (&g->r, 100));
  default: return MIR_new_int_op (ctx, 0);
  }
}

static void mg_app (mg_t *g, fenv_t *e, MIR_insn_t insn) { MIR_append_insn (g->ctx, e->func, insn); g->info->n_insns++; }

/* a call insn against proto number pi with valid arguments */
static void mg_call (mg_t *g, fenv_t *e, int pi, MIR_insn_code_t code) {
  MIR_proto_t pr = g->protos[pi]->u.proto;
  MIR_op_t ops[40]; int n = 0;
  ops[n++] = MIR_new_ref_op (g->ctx, g->protos[pi]);
  ops[n++] = vp_chance (&g->r, 60) ? MIR_new_ref_op (g->ctx, g->imp_fn) : MIR_new_reg_op (g->ctx, e->ri[0]);
  for (uint32_t i = 0; i < pr->nres; i++)
    ops[n++] = mg_op (g, e, pr->res_types[i] == MIR_T_F ? C_fO : pr->res_types[i] == MIR_T_D ? C_dO : pr->res_types[i] == MIR_T_LD ? C_ldO : C_iO);
  size_t na = VARR_LENGTH (MIR_var_t, pr->args);
  for (size_t i = 0; i < na; i++) {
    MIR_var_t v = VARR_GET (MIR_var_t, pr->args, i);
    if (MIR_all_blk_type_p (v.type)) ops[n++] = MIR_new_mem_op (g->ctx, v.type, (MIR_disp_t) v.size, e->ri[vp_below (&g->r, 4)], 0, 1);
    else ops[n++] = mg_op (g, e, v.type == MIR_T_F ? C_fI : v.type == MIR_T_D ? C_dI : v.type == MIR_T_LD ? C_ldI : C_iI);
  }
  if (pr->vararg_p)
    for (int k = (int) vp_below (&g->r, 4); k > 0; k--) {
      int w = (int) vp_below (&g->r, 4);
      ops[n++] = w == 0 ? mg_op (g, e, C_dI) : w == 1 ? mg_op (g, e, C_ldI) : w == 2 ? MIR_new_mem_op (g->ctx, MIR_T_BLK, 24, e->ri[1], 0, 1) : mg_op (g, e, C_iI);
    }
  mg_app (g, e, MIR_new_insn_arr (g->ctx, code, n, ops));
}

/* vocabulary function: every kind of valid insn; never executed */
static MIR_item_t mg_vocab_func (mg_t *g, int idx, MIR_label_t *lref_labs, int *n_lref_labs) {
  MIR_context_t ctx = g->ctx;
  fenv_t e; memset (&e, 0, sizeof e);
  MIR_var_t args[8]; MIR_type_t res[4]; int nargs, nres; char an[8][16];
  char name[32];
  snprintf (name, sizeof name, "voc%d", idx);
  mg_rand_sig (g, args, &nargs, res, &nres, 1, an);
  e.vararg = vp_chance (&g->r, 35) && nargs > 0;
  int jret_func = !e.vararg && vp_chance (&g->r, 10);
  if (jret_func) nres = 0;
  e.func = e.vararg ? MIR_new_vararg_func_arr (ctx, name, nres, res, nargs, args) : MIR_new_func_arr (ctx, name, nres, res, nargs, args);
  MIR_func_t fu = e.func->u.func;
  for (int i = 0; i < 4; i++) { char rn[16]; snprintf (rn, sizeof rn, i == 3 ? "t%d" : "i%d", i == 3 ? 7 + idx : i); e.ri[i] = MIR_new_func_reg (ctx, fu, MIR_T_I64, rn); }
  for (int i = 0; i < 2; i++) { char rn[16]; snprintf (rn, sizeof rn, "f%d", i); e.rf[i] = MIR_new_func_reg (ctx, fu, MIR_T_F, rn); snprintf (rn, sizeof rn, "d%d", i); e.rd[i] = MIR_new_func_reg (ctx, fu, MIR_T_D, rn);
    snprintf (rn, sizeof rn, "ld%d", i); e.rld[i] = MIR_new_func_reg (ctx, fu, MIR_T_LD, rn); }
  if (!(g->feat & MG_NO_GLOBAL_REGS) && vp_chance (&g->r, 20)) MIR_new_global_func_reg (ctx, fu, MIR_T_I64, "greg", "r14");
  e.nlabs = (int) vp_range (&g->r, 2, 6);
  for (int i = 0; i < e.nlabs; i++) e.labs[i] = MIR_new_label (ctx);
  int ninsns = (int) vp_range (&g->r, 5, (g->feat & MG_BIG) ? 400 : 60), next_lab = 0;
  for (int n = 0; n < ninsns; n++) {
    if (next_lab < e.nlabs && (vp_chance (&g->r, 12) || ninsns - n <= e.nlabs - next_lab)) {
      mg_app (g, &e, e.labs[next_lab++]);
      if (vp_chance (&g->r, 20) && next_lab < e.nlabs) mg_app (g, &e, e.labs[next_lab++]); /* several labels on one insn */
    }
    int w = (int) vp_below (&g->r, 100);
    if (w < 8 && g->nprotos) { int pi = (int) vp_below (&g->r, g->nprotos); mg_call (g, &e, pi, vp_chance (&g->r, 25) ? MIR_INLINE : MIR_CALL); continue; }
    if (w < 11) { MIR_op_t o[6]; int nl = (int) vp_range (&g->r, 1, 4); o[0] = mg_op (g, &e, C_iI); for (int k = 0; k < nl; k++) o[k + 1] = mg_op (g, &e, C_LAB); mg_app (g, &e, MIR_new_insn_arr (ctx, MIR_SWITCH, nl + 1, o)); continue; }
    const opdesc_t *d;
    do d = &ops[vp_below (&g->r, NOPS)]; while (((d->flags & F_VARARG) && !e.vararg) || (d->flags & F_NORES));
    if (d->flags & F_OVF_BRANCH) {
      static const MIR_insn_code_t ov[] = {MIR_ADDO, MIR_ADDOS, MIR_SUBO, MIR_SUBOS, MIR_MULO, MIR_MULOS, MIR_UMULO, MIR_UMULOS};
      MIR_insn_code_t oc;
      do oc = ov[vp_below (&g->r, 8)];
      while (((d->code == MIR_UBO || d->code == MIR_UBNO) && (oc == MIR_MULO || oc == MIR_MULOS)) || ((d->code == MIR_BO || d->code == MIR_BNO) && (oc == MIR_UMULO || oc == MIR_UMULOS)));
      mg_app (g, &e, MIR_new_insn (ctx, oc, mg_op (g, &e, C_iO), mg_op (g, &e, C_iI), mg_op (g, &e, C_iI)));
      if (vp_chance (&g->r, 30)) mg_app (g, &e, MIR_new_insn (ctx, MIR_MOV, MIR_new_reg_op (ctx, e.ri[1]), MIR_new_reg_op (ctx, e.ri[2])));
    }
    MIR_op_t o[4];
    for (int k = 0; k < d->nops; k++) o[k] = mg_op (g, &e, d->c[k]);
    mg_app (g, &e, MIR_new_insn_arr (ctx, d->code, d->nops, o));
  }
  while (next_lab < e.nlabs) mg_app (g, &e, e.labs[next_lab++]);
  if (jret_func) mg_app (g, &e, MIR_new_insn (ctx, MIR_JRET, mg_op (g, &e, C_iI)));
  else {
    MIR_op_t o[4];
    for (int k = 0; k < nres; k++) o[k] = mg_op (g, &e, res[k] == MIR_T_F ? C_fI : res[k] == MIR_T_D ? C_dI : res[k] == MIR_T_LD ? C_ldI : C_iI);
    mg_app (g, &e, MIR_new_insn_arr (ctx, MIR_RET, nres, o));
  }
  MIR_finish_func (ctx);
  if (lref_labs) { *n_lref_labs = e.nlabs < 3 ? e.nlabs : 3; for (int i = 0; i < *n_lref_labs; i++) lref_labs[i] = e.labs[i]; }
  g->info->n_funcs++;
  return e.func;
}

/* expression function: one result, no args, no calls, no memory */
static MIR_item_t mg_expr_func (mg_t *g, int idx, MIR_type_t rt) {
  MIR_context_t ctx = g->ctx;
  char name[32]; snprintf (name, sizeof name, "ex%d", idx);
  MIR_item_t f = MIR_new_func_arr (ctx, name, 1, &rt, 0, NULL);
  MIR_func_t fu = f->u.func;
  if (rt == MIR_T_F || rt == MIR_T_D || rt == MIR_T_LD) {
    MIR_reg_t r = MIR_new_func_reg (ctx, fu, rt, "v");
    MIR_insn_code_t mv = rt == MIR_T_F ? MIR_FMOV : rt == MIR_T_D ? MIR_DMOV : MIR_LDMOV, ad = rt == MIR_T_F ? MIR_FADD : rt == MIR_T_D ? MIR_DADD : MIR_LDADD;
    MIR_op_t c1 = rt == MIR_T_F ? MIR_new_float_op (ctx, 1.5f) : rt == MIR_T_D ? MIR_new_double_op (ctx, 2.25) : MIR_new_ldouble_op (ctx, 3.5L);
    MIR_append_insn (ctx, f, MIR_new_insn (ctx, mv, MIR_new_reg_op (ctx, r), c1));
    MIR_append_insn (ctx, f, MIR_new_insn (ctx, ad, MIR_new_reg_op (ctx, r), MIR_new_reg_op (ctx, r), MIR_new_reg_op (ctx, r)));
    MIR_append_insn (ctx, f, MIR_new_ret_insn (ctx, 1, MIR_new_reg_op (ctx, r)));
  } else {
    MIR_reg_t r = MIR_new_func_reg (ctx, fu, MIR_T_I64, "v");
    MIR_append_insn (ctx, f, MIR_new_insn (ctx, MIR_MOV, MIR_new_reg_op (ctx, r), MIR_new_int_op (ctx, mg_int (g))));
    MIR_append_insn (ctx, f, MIR_new_insn (ctx, MIR_ADD, MIR_new_reg_op (ctx, r), MIR_new_reg_op (ctx, r), MIR_new_int_op (ctx, 1 + idx)));
    MIR_append_insn (ctx, f, MIR_new_insn (ctx, MIR_XOR, MIR_new_reg_op (ctx, r), MIR_new_reg_op (ctx, r), MIR_new_int_op (ctx, 0x5a5a)));
    MIR_append_insn (ctx, f, MIR_new_ret_insn (ctx, 1, MIR_new_reg_op (ctx, r)));
  }
  MIR_finish_func (ctx);
  g->info->n_funcs++; g->info->n_insns += 4;
  return f;
}

/* executable entry function  i64 ent<k> (i64 a, i64 b):  deterministic, terminating, address-free result */
static MIR_item_t mg_entry_func (mg_t *g, int k, MIR_item_t tab_data, MIR_item_t lref_head_ref, MIR_label_t *out_labs) {
  MIR_context_t ctx = g->ctx;
  MIR_type_t i64 = MIR_T_I64;
  MIR_var_t args[2] = {{MIR_T_I64, "a", 0}, {MIR_T_I64, "b", 0}};
  char name[24]; snprintf (name, sizeof name, "ent%d", k);
  MIR_item_t f = MIR_new_func_arr (ctx, name, 1, &i64, 2, args);
  MIR_func_t fu = f->u.func;
  MIR_reg_t a = MIR_reg (ctx, "a", fu), b = MIR_reg (ctx, "b", fu);
  MIR_reg_t s = MIR_new_func_reg (ctx, fu, MIR_T_I64, "s"), t = MIR_new_func_reg (ctx, fu, MIR_T_I64, "tt"), fuel = MIR_new_func_reg (ctx, fu, MIR_T_I64, "fuel"),
            p = MIR_new_func_reg (ctx, fu, MIR_T_I64, "p"), d = MIR_new_func_reg (ctx, fu, MIR_T_D, "dd"), fl = MIR_new_func_reg (ctx, fu, MIR_T_F, "ff"), ld = MIR_new_func_reg (ctx, fu, MIR_T_LD, "ll");
#define RO(x) MIR_new_reg_op (ctx, x)
#define IO(x) MIR_new_int_op (ctx, x)
#define AP(i) do { MIR_append_insn (ctx, f, (i)); g->info->n_insns++; } while (0)
  MIR_label_t loop = MIR_new_label (ctx), done = MIR_new_label (ctx), l1 = MIR_new_label (ctx), l2 = MIR_new_label (ctx), l3 = MIR_new_label (ctx), join = MIR_new_label (ctx);
  AP (MIR_new_insn (ctx, MIR_MOV, RO (s), IO (mg_int (g))));
  AP (MIR_new_insn (ctx, MIR_AND, RO (fuel), RO (b), IO (15)));
  AP (MIR_new_insn (ctx, MIR_ADD, RO (fuel), RO (fuel), IO (1 + (int64_t) vp_below (&g->r, 5))));
  AP (loop);
  AP (MIR_new_insn (ctx, MIR_BLE, MIR_new_label_op (ctx, done), RO (fuel), IO (0)));
  int body = (int) vp_range (&g->r, 3, 14);
  for (int n = 0; n < body; n++) {
    static const MIR_insn_code_t bin[] = {MIR_ADD, MIR_SUB, MIR_MUL, MIR_AND, MIR_OR, MIR_XOR, MIR_ADDS, MIR_SUBS, MIR_MULS, MIR_XORS, MIR_LT, MIR_ULE, MIR_GES, MIR_NE, MIR_EQS};
    switch (vp_below (&g->r, 9)) {
    case 0: case 1: case 2: {
      MIR_insn_code_t c = bin[vp_below (&g->r, sizeof bin / sizeof bin[0])];
      AP (MIR_new_insn (ctx, c, RO (t), RO (vp_chance (&g->r, 50) ? s : a), vp_chance (&g->r, 50) ? IO (mg_int (g)) : RO (vp_chance (&g->r, 50) ? b : fuel)));
      AP (MIR_new_insn (ctx, MIR_EXT32, RO (t), RO (t)));
      AP (MIR_new_insn (ctx, MIR_ADD, RO (s), RO (s), RO (t)));
      break; }
    case 3: /* shift with masked count */
      AP (MIR_new_insn (ctx, MIR_AND, RO (t), RO (b), IO (63)));
      AP (MIR_new_insn (ctx, vp_chance (&g->r, 50) ? MIR_LSH : (vp_chance (&g->r, 50) ? MIR_RSH : MIR_URSH), RO (t), RO (s), RO (t)));
      AP (MIR_new_insn (ctx, MIR_XOR, RO (s), RO (s), RO (t)));
      break;
    case 4: /* FP round trip through finite constants */
      AP (MIR_new_insn (ctx, MIR_AND, RO (t), RO (s), IO (0xffff)));
      AP (MIR_new_insn (ctx, MIR_I2D, RO (d), RO (t)));
      AP (MIR_new_insn (ctx, MIR_DMUL, RO (d), RO (d), MIR_new_double_op (ctx, (double) vp_range (&g->r, 1, 9) + 0.5)));
      AP (MIR_new_insn (ctx, MIR_D2F, RO (fl), RO (d)));
      AP (MIR_new_insn (ctx, MIR_FADD, RO (fl), RO (fl), MIR_new_float_op (ctx, 0.25f)));
      AP (MIR_new_insn (ctx, MIR_F2LD, RO (ld), RO (fl)));
      if (!(g->feat & MG_NO_LD_IMM)) AP (MIR_new_insn (ctx, MIR_LDADD, RO (ld), RO (ld), MIR_new_ldouble_op (ctx, 1.0L)));
      AP (MIR_new_insn (ctx, MIR_LD2I, RO (t), RO (ld)));
      AP (MIR_new_insn (ctx, MIR_ADD, RO (s), RO (s), RO (t)));
      break;
    case 5: /* read module data through a reference */
      if (tab_data != NULL) {
        AP (MIR_new_insn (ctx, MIR_MOV, RO (p), MIR_new_ref_op (ctx, tab_data)));
        AP (MIR_new_insn (ctx, MIR_AND, RO (t), RO (fuel), IO (3)));
        AP (MIR_new_insn (ctx, MIR_MOV, RO (t), MIR_new_mem_op (ctx, MIR_T_I64, 0, p, t, 8)));
        AP (MIR_new_insn (ctx, MIR_ADD, RO (s), RO (s), RO (t)));
      }
      break;
    case 6: { /* string operand: address is not observable, its bytes are */
      static char sb[16]; size_t len = 4 + vp_below (&g->r, 8);
      for (size_t i = 0; i < len; i++) { sb[i] = (char) vp_next (&g->r); g->strbytes[(uint8_t) sb[i]] = 1; }
      if (!(g->feat & MG_STR_NO_NUL) || vp_chance (&g->r, 50)) sb[len++] = 0;
      g->info->has_str_op = 1;
      AP (MIR_new_insn (ctx, MIR_MOV, RO (p), MIR_new_str_op (ctx, (MIR_str_t){len, sb})));
      AP (MIR_new_insn (ctx, MIR_MOV, RO (t), MIR_new_mem_op (ctx, vp_chance (&g->r, 50) ? MIR_T_U8 : MIR_T_I8, (MIR_disp_t) vp_below (&g->r, len > 4 ? 4 : len), p, 0, 1)));
      AP (MIR_new_insn (ctx, MIR_ADD, RO (s), RO (s), RO (t)));
      break; }
    case 7: { /* overflow insn + branch */
      MIR_label_t ov = MIR_new_label (ctx);
      AP (MIR_new_insn (ctx, vp_chance (&g->r, 50) ? MIR_ADDO : MIR_MULOS, RO (t), RO (s), RO (a)));
      AP (MIR_new_insn (ctx, vp_chance (&g->r, 50) ? MIR_BO : MIR_BNO, MIR_new_label_op (ctx, ov)));
      AP (MIR_new_insn (ctx, MIR_ADD, RO (s), RO (s), IO (17)));
      AP (ov);
      AP (MIR_new_insn (ctx, MIR_EXT32, RO (t), RO (t))); /* the upper half of a 32-bit insn result is undefined (MIR.md) */
      AP (MIR_new_insn (ctx, MIR_XOR, RO (s), RO (s), RO (t)));
      break; }
    default: /* call another entry (lower index only: no recursion) */
      if (k > 0 && g->p_ent != NULL) {
        AP (MIR_new_call_insn (ctx, 5, MIR_new_ref_op (ctx, g->p_ent), MIR_new_ref_op (ctx, g->ent_items[vp_below (&g->r, k)]), RO (t), RO (s), RO (fuel)));
        AP (MIR_new_insn (ctx, MIR_ADD, RO (s), RO (s), RO (t)));
      }
      break;
    }
  }
  /* switch / lref-table dispatch on (fuel & 1) */
  AP (MIR_new_insn (ctx, MIR_AND, RO (t), RO (fuel), IO (1)));
  if (lref_head_ref != NULL) {
    AP (MIR_new_insn (ctx, MIR_MOV, RO (p), MIR_new_ref_op (ctx, lref_head_ref)));
    AP (MIR_new_insn (ctx, MIR_MOV, RO (p), MIR_new_mem_op (ctx, MIR_T_P, 0, p, t, 8)));
    AP (MIR_new_insn (ctx, MIR_JMPI, RO (p)));
  } else if (vp_chance (&g->r, 50)) {
    MIR_op_t so[3] = {RO (t), MIR_new_label_op (ctx, l1), MIR_new_label_op (ctx, l2)};
    AP (MIR_new_insn_arr (ctx, MIR_SWITCH, 3, so));
  } else {
    AP (MIR_new_insn (ctx, MIR_LADDR, RO (p), MIR_new_label_op (ctx, l1)));
    AP (MIR_new_insn (ctx, MIR_BT, MIR_new_label_op (ctx, l3), RO (t)));
    AP (MIR_new_insn (ctx, MIR_JMPI, RO (p)));
    AP (l3);
    AP (MIR_new_insn (ctx, MIR_JMP, MIR_new_label_op (ctx, l2)));
  }
  AP (l1); AP (MIR_new_insn (ctx, MIR_ADD, RO (s), RO (s), IO (1000003))); AP (MIR_new_insn (ctx, MIR_JMP, MIR_new_label_op (ctx, join)));
  AP (l2); AP (MIR_new_insn (ctx, MIR_MUL, RO (s), RO (s), IO (31)));
  AP (join);
  AP (MIR_new_insn (ctx, MIR_SUB, RO (fuel), RO (fuel), IO (1)));
  AP (MIR_new_insn (ctx, MIR_JMP, MIR_new_label_op (ctx, loop)));
  AP (done);
  AP (MIR_new_ret_insn (ctx, 1, RO (s)));
  MIR_finish_func (ctx);
  if (out_labs) { out_labs[0] = l1; out_labs[1] = l2; }
  g->info->n_funcs++;
  return f;
#undef RO
#undef IO
#undef AP
}

/* ---------------- data items */
static void mg_data_items (mg_t *g) {
  MIR_context_t ctx = g->ctx;
  static const MIR_type_t dt[] = {MIR_T_I8, MIR_T_U8, MIR_T_I16, MIR_T_U16, MIR_T_I32, MIR_T_U32, MIR_T_I64, MIR_T_U64, MIR_T_F, MIR_T_D, MIR_T_LD, MIR_T_P};
  int nsec = (int) vp_range (&g->r, 1, 5);
  for (int s = 0; s < nsec; s++) {
    int nitems = (int) vp_range (&g->r, 1, 6);
    for (int i = 0; i < nitems; i++) {
      const char *name = i == 0 || vp_chance (&g->r, 15) ? mg_name (g, "dat") : NULL;
      int w = (int) vp_below (&g->r, 100);
      MIR_item_t it;
      if (w < 55) {
        MIR_type_t t = dt[vp_below (&g->r, (g->feat & MG_NO_PDATA) ? 11 : 12)];
        size_t nel = (size_t[]){1, 1, 2, 3, 7, 8, 9, 33}[vp_below (&g->r, 8)];
        int blob = 0;
        if ((g->feat & MG_BIG) && vp_chance (&g->r, 30)) nel = 20000 + vp_below (&g->r, 60000);
        else if (vp_chance (&g->r, 6)) { nel = 260 + vp_below (&g->r, 2000); blob = 1; } /* high-entropy blob: long incompressible literal runs */
        static union { int8_t i8[80000]; int16_t i16[80000]; int32_t i32[80000]; int64_t i64[80000]; float f[80000]; double d[80000]; long double ld[80000]; } buf;
        for (size_t k = 0; k < nel; k++) switch (t) {
          case MIR_T_I8: case MIR_T_U8: buf.i8[k] = (int8_t) mg_int (g); break;
          case MIR_T_I16: case MIR_T_U16: buf.i16[k] = (int16_t) mg_int (g); break;
          case MIR_T_I32: case MIR_T_U32: buf.i32[k] = (int32_t) mg_int (g); break;
          case MIR_T_F: buf.f[k] = mg_float (g); break;
          case MIR_T_D: buf.d[k] = mg_double (g); break;
          case MIR_T_LD: memset (&buf.ld[k], 0, sizeof (long double)); buf.ld[k] = (g->feat & MG_NO_LD_IMM) ? (long double) mg_double (g) : mg_ldouble (g); break;
          default: buf.i64[k] = t == MIR_T_P ? (int64_t) (mg_int (g) & 0xffffffffffffLL) : mg_int (g); break;
          }
        if (blob) { t = vp_chance (&g->r, 50) ? MIR_T_U64 : MIR_T_I64; for (size_t k = 0; k < nel; k++) buf.i64[k] = (int64_t) vp_next (&g->r); }
        it = MIR_new_data (ctx, name, t, nel, &buf);
        g->info->data_types |= 1ull << t;
      } else if (w < 70) { /* string data with arbitrary bytes */
        char sb[300]; size_t len = 1 + vp_below (&g->r, vp_chance (&g->r, 20) ? 299 : 24);
        for (size_t k = 0; k < len; k++) { sb[k] = (char) (vp_chance (&g->r, 60) ? vp_next (&g->r) : "a\"\\\n\t 07x\0"[vp_below (&g->r, 11)]); g->strbytes[(uint8_t) sb[k]] = 1; }
        if (vp_chance (&g->r, 70)) sb[len - 1] = 0;
        it = MIR_new_string_data (ctx, name, (MIR_str_t){len, sb});
        g->info->data_types |= 1ull << MIR_T_U8;
      } else if (w < 82) {
        it = MIR_new_bss (ctx, name, (size_t[]){0, 1, 8, 13, 4096, 100000}[vp_below (&g->r, 6)]);
      } else { /* ref to an earlier data item / import / forward, with displacement */
        MIR_item_t target = g->ndatas && vp_chance (&g->r, 50) ? g->datas[vp_below (&g->r, g->ndatas)] : g->nfwd && vp_chance (&g->r, 50) ? g->fwd_items[vp_below (&g->r, g->nfwd)] : vp_chance (&g->r, 50) ? g->imp_data : g->imp_fn;
        it = MIR_new_ref_data (ctx, name, target, (int64_t[]){0, 0, 8, -8, 1000, -1}[vp_below (&g->r, 6)]);
      }
      g->info->item_kinds |= 1ull << it->item_type;
      g->info->n_items++;
      if (name != NULL && g->ndatas < 32 && it->item_type != MIR_bss_item) g->datas[g->ndatas++] = it;
    }
    /* break the section with a non-data item */
    if (vp_chance (&g->r, 40)) { MIR_new_export (ctx, "ent0"); g->info->n_items++; }
  }
}

/* ---------------- whole module */
static MIR_module_t mg_build (MIR_context_t ctx, uint64_t seed, long idx, unsigned feat, mg_info_t *info) {
  mg_t G, *g = &G;
  memset (g, 0, sizeof G); memset (info, 0, sizeof *info);
  g->ctx = ctx; g->r = vp_case_rng (seed, 0x4d47, (uint64_t) idx); g->feat = feat; g->info = info;
  char mname[32]; snprintf (mname, sizeof mname, "m%ld", idx % 1000);
  MIR_module_t m = MIR_new_module (ctx, mname);
  MIR_type_t i64 = MIR_T_I64;
  MIR_var_t pa[2] = {{MIR_T_I64, "a", 0}, {MIR_T_I64, "b", 0}};
  g->p_ent = MIR_new_proto_arr (ctx, "p_ent", 1, &i64, 2, pa);
  g->imp_fn = MIR_new_import (ctx, "ext_fn");
  g->imp_data = MIR_new_import (ctx, "ext_data");
  info->item_kinds |= (1ull << MIR_proto_item) | (1ull << MIR_import_item);
  info->n_items += 3;
  if (!(feat & MG_EXEC_ONLY)) {
    g->nprotos = (int) vp_range (&g->r, 1, 4);
    for (int i = 0; i < g->nprotos; i++) {
      MIR_var_t args[8]; MIR_type_t res[4]; int na, nr; char an[8][16], pn[16];
      mg_rand_sig (g, args, &na, res, &nr, 1, an);
      if (vp_chance (&g->r, 30) && na >= 2) args[1].name = args[0].name; /* proto arg names may repeat */
      snprintf (pn, sizeof pn, "pr%d", i);
      g->protos[i] = vp_chance (&g->r, 35) ? MIR_new_vararg_proto_arr (ctx, pn, nr, res, na, args) : MIR_new_proto_arr (ctx, pn, nr, res, na, args);
      info->n_items++;
    }
    /* forward + export of things defined later */
    if (vp_chance (&g->r, 60)) { g->fwd_items[g->nfwd++] = MIR_new_forward (ctx, "ent0"); info->item_kinds |= 1ull << MIR_forward_item; info->n_items++; }
    if (vp_chance (&g->r, 50)) { MIR_new_export (ctx, "voc0"); info->item_kinds |= 1ull << MIR_export_item; info->n_items++; }
  }
  /* a named i64 table the entries read (+ anonymous continuation) */
  int64_t tab[4]; for (int i = 0; i < 4; i++) tab[i] = mg_int (g);
  MIR_item_t tab_data = MIR_new_data (ctx, "ent_tab", MIR_T_I64, 2, tab);
  MIR_new_data (ctx, NULL, MIR_T_I64, 2, tab + 2);
  info->n_items += 2; info->data_types |= 1ull << MIR_T_I64; info->item_kinds |= 1ull << MIR_data_item;
  if (!(feat & MG_EXEC_ONLY)) mg_data_items (g);
  /* expression data */
  if (!(feat & (MG_NO_EXPR | MG_EXEC_ONLY))) {
    static const MIR_type_t et[] = {MIR_T_I8, MIR_T_U8, MIR_T_I16, MIR_T_U16, MIR_T_I32, MIR_T_U32, MIR_T_I64, MIR_T_U64, MIR_T_P, MIR_T_F, MIR_T_D, MIR_T_LD};
    int ne = (int) vp_below (&g->r, 4);
    for (int i = 0; i < ne; i++) {
      MIR_item_t ef = mg_expr_func (g, i, et[vp_below (&g->r, 12)]);
      MIR_new_expr_data (ctx, i == 0 || vp_chance (&g->r, 30) ? mg_name (g, "exd") : NULL, ef);
      info->has_expr = 1; info->item_kinds |= 1ull << MIR_expr_data_item; info->n_items += 2;
    }
  }
  /* entries; entry 0 may dispatch through an lref table */
  int nent = (int) vp_range (&g->r, 1, MG_MAX_ENTRIES);
  info->n_entries = nent;
  for (int k = 0; k < nent; k++) {
    int use_lref = !(feat & MG_NO_LREF) && vp_chance (&g->r, 35);
    MIR_item_t fwd_tab = NULL;
    char tn[24]; snprintf (tn, sizeof tn, "lrt%d", k);
    if (use_lref) { fwd_tab = MIR_new_forward (ctx, tn); info->n_items++; }
    MIR_label_t labs[2];
    g->ent_items[k] = mg_entry_func (g, k, tab_data, fwd_tab, labs);
    snprintf (info->entry_name[k], sizeof info->entry_name[k], "ent%d", k);
    if (use_lref) {
      MIR_new_lref_data (ctx, tn, labs[0], NULL, 0);
      MIR_new_lref_data (ctx, NULL, labs[1], NULL, 0);
      if (vp_chance (&g->r, 50)) MIR_new_lref_data (ctx, NULL, labs[1], labs[0], (int64_t) vp_range (&g->r, -3, 40)); /* label difference (not executed) */
      info->has_lref = 1; info->item_kinds |= 1ull << MIR_lref_data_item; info->n_items += 2;
    }
    if (vp_chance (&g->r, 60)) { MIR_new_export (ctx, info->entry_name[k]); info->item_kinds |= 1ull << MIR_export_item; info->n_items++; }
    info->n_items++;
  }
  info->item_kinds |= 1ull << MIR_func_item;
  if (!(feat & MG_EXEC_ONLY)) {
    int nv = (int) vp_range (&g->r, 1, (feat & MG_BIG) ? 40 : 4);
    for (int i = 0; i < nv; i++) {
      MIR_label_t ll[3]; int nl = 0;
      mg_vocab_func (g, i, ll, &nl);
      info->n_items++;
      if (!(feat & MG_NO_LREF) && nl >= 2 && vp_chance (&g->r, 40)) {
        MIR_new_lref_data (ctx, mg_name (g, "vl"), ll[0], vp_chance (&g->r, 50) ? ll[1] : NULL, (int64_t[]){0, 8, -16}[vp_below (&g->r, 3)]);
        info->has_lref = 1; info->item_kinds |= 1ull << MIR_lref_data_item; info->n_items++;
      }
    }
    MIR_new_bss (ctx, NULL, 3); info->item_kinds |= 1ull << MIR_bss_item; info->n_items++;
  }
  MIR_finish_module (ctx);
  for (int i = 0; i < 256; i++) info->n_str_bytes_distinct += g->strbytes[i];
  info->shape_hash = vp_hash_mix (vp_hash_mix (vp_hash_mix (info->item_kinds, info->data_types), info->op_kinds), (uint64_t) info->n_funcs * 1000003u + info->n_insns);
  return m;
}

/* ================================================================= structural comparison */
typedef struct { char msg[512]; const char *kind; } mc_diff_t;
#define MC_FAIL(d, k, ...) do { (d)->kind = (k); snprintf ((d)->msg, sizeof (d)->msg, __VA_ARGS__); return 0; } while (0)

static int mc_label_ordinal (MIR_func_t f, MIR_label_t lab) {
  int n = 0;
  for (MIR_insn_t i = DLIST_HEAD (MIR_insn_t, f->insns); i != NULL; i = DLIST_NEXT (MIR_insn_t, i))
    if (i->code == MIR_LABEL) { if (i == lab) return n; n++; }
  return -1;
}
/* find the function of module m owning label lab, return ordinal (labels of all functions numbered consecutively) */
static int mc_module_label_ordinal (MIR_module_t m, MIR_label_t lab) {
  int base = 0;
  for (MIR_item_t it = DLIST_HEAD (MIR_item_t, m->items); it != NULL; it = DLIST_NEXT (MIR_item_t, it))
    if (it->item_type == MIR_func_item) {
      int o = mc_label_ordinal (it->u.func, lab);
      if (o >= 0) return base + o;
      for (MIR_insn_t i = DLIST_HEAD (MIR_insn_t, it->u.func->insns); i != NULL; i = DLIST_NEXT (MIR_insn_t, i)) if (i->code == MIR_LABEL) base++;
    }
  return -1;
}
static int mc_streq (const char *a, const char *b) { return (a == NULL && b == NULL) || (a != NULL && b != NULL && strcmp (a, b) == 0); }
static const char *mc_alias (MIR_context_t c, MIR_alias_t a) { return a == 0 ? "" : MIR_alias_name (c, a); }

static int mc_op_equal (MIR_context_t c1, MIR_func_t f1, MIR_op_t *o1, MIR_context_t c2, MIR_func_t f2, MIR_op_t *o2, mc_diff_t *d, int float_exact) {
  MIR_op_mode_t m1 = o1->mode == MIR_OP_UINT ? MIR_OP_INT : o1->mode, m2 = o2->mode == MIR_OP_UINT ? MIR_OP_INT : o2->mode;
  if (m1 != m2) MC_FAIL (d, "operand-mode", "operand mode %d vs %d", o1->mode, o2->mode);
  switch (m1) {
  case MIR_OP_REG:
    if (strcmp (MIR_reg_name (c1, o1->u.reg, f1), MIR_reg_name (c2, o2->u.reg, f2)) != 0) MC_FAIL (d, "operand-reg", "register %s vs %s", MIR_reg_name (c1, o1->u.reg, f1), MIR_reg_name (c2, o2->u.reg, f2));
    if (MIR_reg_type (c1, o1->u.reg, f1) != MIR_reg_type (c2, o2->u.reg, f2)) MC_FAIL (d, "operand-reg-type", "register %s type differs", MIR_reg_name (c1, o1->u.reg, f1));
    return 1;
  case MIR_OP_INT: if (o1->u.u != o2->u.u) MC_FAIL (d, "operand-int", "integer immediate %lld vs %lld", (long long) o1->u.i, (long long) o2->u.i); return 1;
  case MIR_OP_FLOAT: if (memcmp (&o1->u.f, &o2->u.f, 4) != 0) MC_FAIL (d, "operand-float", "float immediate %a vs %a", o1->u.f, o2->u.f); return 1;
  case MIR_OP_DOUBLE: if (memcmp (&o1->u.d, &o2->u.d, 8) != 0) MC_FAIL (d, "operand-double", "double immediate %a vs %a", o1->u.d, o2->u.d); return 1;
  case MIR_OP_LDOUBLE: if (memcmp (&o1->u.ld, &o2->u.ld, 10) != 0) MC_FAIL (d, "operand-ldouble", "long double immediate %La vs %La", o1->u.ld, o2->u.ld); return 1;
  /* a name may resolve to the forward/export declaration or to the definition itself depending on item order: same entity */
  case MIR_OP_REF: if (strcmp (MIR_item_name (c1, o1->u.ref), MIR_item_name (c2, o2->u.ref)) != 0) MC_FAIL (d, "operand-ref", "reference %s vs %s", MIR_item_name (c1, o1->u.ref), MIR_item_name (c2, o2->u.ref)); return 1;
  case MIR_OP_STR:
    if (o1->u.str.len + 1 == o2->u.str.len && o1->u.str.len > 0 && o1->u.str.s[o1->u.str.len - 1] != 0 && o2->u.str.s[o1->u.str.len] == 0 && memcmp (o1->u.str.s, o2->u.str.s, o1->u.str.len) == 0)
      MC_FAIL (d, "operand-str-nul-appended", "string operand without trailing NUL (len %zu) came back with a NUL appended (len %zu)", o1->u.str.len, o2->u.str.len);
    if (o1->u.str.len != o2->u.str.len || memcmp (o1->u.str.s, o2->u.str.s, o1->u.str.len) != 0) MC_FAIL (d, "operand-str", "string operand differs (len %zu vs %zu)", o1->u.str.len, o2->u.str.len);
    return 1;
  case MIR_OP_LABEL: { int a = mc_label_ordinal (f1, o1->u.label), b = mc_label_ordinal (f2, o2->u.label); if (a != b || a < 0) MC_FAIL (d, "operand-label", "label operand refers to label #%d vs #%d of the function", a, b); return 1; }
  case MIR_OP_MEM: {
    MIR_mem_t *a = &o1->u.mem, *b = &o2->u.mem;
    if (a->type != b->type) MC_FAIL (d, "mem-type", "memory type %s vs %s", MIR_type_str (c1, a->type), MIR_type_str (c2, b->type));
    if (a->disp != b->disp) MC_FAIL (d, "mem-disp", "memory disp %lld vs %lld", (long long) a->disp, (long long) b->disp);
    if ((a->base == 0) != (b->base == 0) || (a->base && strcmp (MIR_reg_name (c1, a->base, f1), MIR_reg_name (c2, b->base, f2)) != 0)) MC_FAIL (d, "mem-base", "memory base differs");
    if ((a->index == 0) != (b->index == 0) || (a->index && strcmp (MIR_reg_name (c1, a->index, f1), MIR_reg_name (c2, b->index, f2)) != 0)) MC_FAIL (d, "mem-index", "memory index differs");
    if (a->index != 0 && a->scale != b->scale) MC_FAIL (d, "mem-scale", "memory scale %d vs %d", a->scale, b->scale);
    if (strcmp (mc_alias (c1, a->alias), mc_alias (c2, b->alias)) != 0) MC_FAIL (d, "mem-alias", "alias '%s' vs '%s'", mc_alias (c1, a->alias), mc_alias (c2, b->alias));
    if (strcmp (mc_alias (c1, a->nonalias), mc_alias (c2, b->nonalias)) != 0) MC_FAIL (d, "mem-nonalias", "nonalias '%s' vs '%s'", mc_alias (c1, a->nonalias), mc_alias (c2, b->nonalias));
    return 1; }
  default: MC_FAIL (d, "operand-mode", "unexpected operand mode %d", o1->mode);
  }
}
static int mc_vars_equal (VARR (MIR_var_t) * v1, size_t n1, VARR (MIR_var_t) * v2, size_t n2, int names, mc_diff_t *d, const char *what) {
  if (n1 != n2) MC_FAIL (d, "vars-count", "%s: %zu vs %zu variables", what, n1, n2);
  for (size_t i = 0; i < n1; i++) {
    MIR_var_t a = VARR_GET (MIR_var_t, v1, i), b = VARR_GET (MIR_var_t, v2, i);
    if (a.type != b.type) MC_FAIL (d, "var-type", "%s: variable #%zu type %d vs %d", what, i, a.type, b.type);
    if (MIR_all_blk_type_p (a.type) && a.size != b.size) MC_FAIL (d, "var-size", "%s: block variable #%zu size %zu vs %zu", what, i, a.size, b.size);
    if (names && !mc_streq (a.name, b.name)) MC_FAIL (d, "var-name", "%s: variable #%zu name %s vs %s", what, i, a.name, b.name);
  }
  return 1;
}
static int mc_func_equal (MIR_context_t c1, MIR_func_t f1, MIR_context_t c2, MIR_func_t f2, mc_diff_t *d) {
  if (strcmp (f1->name, f2->name) != 0) MC_FAIL (d, "func-name", "function %s vs %s", f1->name, f2->name);
  if (f1->nres != f2->nres || f1->nargs != f2->nargs || f1->vararg_p != f2->vararg_p) MC_FAIL (d, "func-sig", "function %s: nres/nargs/vararg differ", f1->name);
  for (uint32_t i = 0; i < f1->nres; i++) if (f1->res_types[i] != f2->res_types[i]) MC_FAIL (d, "func-res-type", "function %s: result #%u type differs", f1->name, i);
  if (!mc_vars_equal (f1->vars, VARR_LENGTH (MIR_var_t, f1->vars), f2->vars, VARR_LENGTH (MIR_var_t, f2->vars), 1, d, f1->name)) return 0;
  size_t g1 = f1->global_vars ? VARR_LENGTH (MIR_var_t, f1->global_vars) : 0, g2 = f2->global_vars ? VARR_LENGTH (MIR_var_t, f2->global_vars) : 0;
  if (g1 != g2) MC_FAIL (d, "func-globals", "function %s: %zu vs %zu global variables", f1->name, g1, g2);
  MIR_insn_t i1 = DLIST_HEAD (MIR_insn_t, f1->insns), i2 = DLIST_HEAD (MIR_insn_t, f2->insns);
  int n = 0;
  for (; i1 != NULL && i2 != NULL; i1 = DLIST_NEXT (MIR_insn_t, i1), i2 = DLIST_NEXT (MIR_insn_t, i2), n++) {
    if (i1->code != i2->code) MC_FAIL (d, "insn-code", "function %s insn #%d: %s vs %s", f1->name, n, MIR_insn_name (c1, i1->code), MIR_insn_name (c2, i2->code));
    if (i1->code == MIR_LABEL) continue;
    if (i1->nops != i2->nops) MC_FAIL (d, "insn-nops", "function %s insn #%d (%s): %u vs %u operands", f1->name, n, MIR_insn_name (c1, i1->code), i1->nops, i2->nops);
    for (unsigned k = 0; k < i1->nops; k++)
      if (!mc_op_equal (c1, f1, &i1->ops[k], c2, f2, &i2->ops[k], d, 1)) {
        char t[256]; snprintf (t, sizeof t, "function %s insn #%d (%s) operand %u: %s", f1->name, n, MIR_insn_name (c1, i1->code), k + 1, d->msg);
        snprintf (d->msg, sizeof d->msg, "%s", t);
        return 0;
      }
  }
  if (i1 != NULL || i2 != NULL) MC_FAIL (d, "insn-count", "function %s: different number of insns (stopped at #%d)", f1->name, n);
  return 1;
}
static size_t mc_type_size (MIR_type_t t) {
  switch (t) { case MIR_T_I8: case MIR_T_U8: return 1; case MIR_T_I16: case MIR_T_U16: return 2; case MIR_T_I32: case MIR_T_U32: case MIR_T_F: return 4; case MIR_T_LD: return 16; default: return 8; }
}
static int mc_module_equal (MIR_context_t c1, MIR_module_t m1, MIR_context_t c2, MIR_module_t m2, mc_diff_t *d) {
  if (strcmp (m1->name, m2->name) != 0) MC_FAIL (d, "module-name", "module name %s vs %s", m1->name, m2->name);
  MIR_item_t a = DLIST_HEAD (MIR_item_t, m1->items), b = DLIST_HEAD (MIR_item_t, m2->items);
  int n = 0;
  for (; a != NULL && b != NULL; a = DLIST_NEXT (MIR_item_t, a), b = DLIST_NEXT (MIR_item_t, b), n++) {
    if (a->item_type != b->item_type) MC_FAIL (d, "item-type", "item #%d: type %d vs %d (%s vs %s)", n, a->item_type, b->item_type, MIR_item_name (c1, a) ? MIR_item_name (c1, a) : "(anon)", MIR_item_name (c2, b) ? MIR_item_name (c2, b) : "(anon)");
    if (!mc_streq (MIR_item_name (c1, a), MIR_item_name (c2, b))) MC_FAIL (d, "item-name", "item #%d: name %s vs %s", n, MIR_item_name (c1, a), MIR_item_name (c2, b));
    switch (a->item_type) {
    case MIR_func_item: if (!mc_func_equal (c1, a->u.func, c2, b->u.func, d)) return 0; break;
    case MIR_proto_item: {
      MIR_proto_t p = a->u.proto, q = b->u.proto;
      if (p->nres != q->nres || p->vararg_p != q->vararg_p) MC_FAIL (d, "proto-sig", "proto %s: nres/vararg differ", p->name);
      for (uint32_t i = 0; i < p->nres; i++) if (p->res_types[i] != q->res_types[i]) MC_FAIL (d, "proto-res-type", "proto %s: result #%u type differs", p->name, i);
      if (!mc_vars_equal (p->args, VARR_LENGTH (MIR_var_t, p->args), q->args, VARR_LENGTH (MIR_var_t, q->args), 1, d, p->name)) return 0;
      break; }
    case MIR_data_item: {
      MIR_data_t p = a->u.data, q = b->u.data;
      if (p->el_type != q->el_type) MC_FAIL (d, "data-type", "data item #%d (%s): element type %s vs %s", n, p->name ? p->name : "anon", MIR_type_str (c1, p->el_type), MIR_type_str (c2, q->el_type));
      if (p->nel != q->nel) MC_FAIL (d, "data-nel", "data item #%d (%s): %zu vs %zu elements", n, p->name ? p->name : "anon", p->nel, q->nel);
      size_t es = mc_type_size (p->el_type);
      for (size_t k = 0; k < p->nel; k++)
        if (memcmp (p->u.els + k * es, q->u.els + k * es, p->el_type == MIR_T_LD ? 10 : es) != 0) MC_FAIL (d, "data-bytes", "data item #%d (%s, %s): element %zu differs", n, p->name ? p->name : "anon", MIR_type_str (c1, p->el_type), k);
      break; }
    case MIR_bss_item: if (a->u.bss->len != b->u.bss->len) MC_FAIL (d, "bss-len", "bss item #%d: len %llu vs %llu", n, (unsigned long long) a->u.bss->len, (unsigned long long) b->u.bss->len); break;
    case MIR_ref_data_item:
      if (!mc_streq (MIR_item_name (c1, a->u.ref_data->ref_item), MIR_item_name (c2, b->u.ref_data->ref_item))) MC_FAIL (d, "ref-target", "ref item #%d: target %s vs %s", n, MIR_item_name (c1, a->u.ref_data->ref_item), MIR_item_name (c2, b->u.ref_data->ref_item));
      if (a->u.ref_data->disp != b->u.ref_data->disp) MC_FAIL (d, "ref-disp", "ref item #%d: disp %lld vs %lld", n, (long long) a->u.ref_data->disp, (long long) b->u.ref_data->disp);
      break;
    case MIR_lref_data_item: {
      MIR_lref_data_t p = a->u.lref_data, q = b->u.lref_data;
      int o1 = mc_module_label_ordinal (m1, p->label), o2 = mc_module_label_ordinal (m2, q->label);
      if (o1 != o2 || o1 < 0) MC_FAIL (d, "lref-label", "lref item #%d: label is module label #%d vs #%d", n, o1, o2);
      if ((p->label2 == NULL) != (q->label2 == NULL)) MC_FAIL (d, "lref-label2", "lref item #%d: second label present in one module only", n);
      if (p->label2 != NULL && mc_module_label_ordinal (m1, p->label2) != mc_module_label_ordinal (m2, q->label2)) MC_FAIL (d, "lref-label2", "lref item #%d: second label differs", n);
      if (p->disp != q->disp) MC_FAIL (d, "lref-disp", "lref item #%d: disp %lld vs %lld", n, (long long) p->disp, (long long) q->disp);
      break; }
    case MIR_expr_data_item:
      if (!mc_streq (MIR_item_name (c1, a->u.expr_data->expr_item), MIR_item_name (c2, b->u.expr_data->expr_item))) MC_FAIL (d, "expr-func", "expr item #%d: function differs", n);
      break;
    default: break; /* import/export/forward: name compared above */
    }
  }
  if (a != NULL || b != NULL) MC_FAIL (d, "item-count", "different number of items (stopped at #%d; extra: %s)", n, a ? (MIR_item_name (c1, a) ? MIR_item_name (c1, a) : "anon") : (MIR_item_name (c2, b) ? MIR_item_name (c2, b) : "anon"));
  return 1;
}

/* ================================================================= execution of entries */
static int64_t mg_ext_fn (int64_t a) { return a * 3 + 1; }
static int64_t mg_ext_data_v[4] = {11, 22, 33, 44};
static MIR_item_t mg_find_item (MIR_context_t ctx, MIR_module_t m, const char *name) {
  for (MIR_item_t it = DLIST_HEAD (MIR_item_t, m->items); it != NULL; it = DLIST_NEXT (MIR_item_t, it))
    if ((it->item_type == MIR_func_item || it->item_type == MIR_data_item || it->item_type == MIR_bss_item || it->item_type == MIR_ref_data_item
         || it->item_type == MIR_lref_data_item || it->item_type == MIR_expr_data_item) && MIR_item_name (ctx, it) != NULL && strcmp (MIR_item_name (ctx, it), name) == 0) return it;
  return NULL;
}
static const int64_t mg_inputs[][2] = {{0, 0}, {1, 1}, {-1, 7}, {0x7fffffffffffffffLL, 3}, {123456789, 12}, {-987654321012LL, 5}, {0x80000000LL, 15}, {42, 9}};
#define MG_NINPUTS 8
/* load + link with the interpreter interface and run every entry on every input via MIR_interp; results[k*NINPUTS+j] */
static void mg_exec_entries (MIR_context_t ctx, MIR_module_t m, const mg_info_t *info, int64_t *results, int use_gen) {
  MIR_load_module (ctx, m);
  MIR_load_external (ctx, "ext_fn", mg_ext_fn);
  MIR_load_external (ctx, "ext_data", mg_ext_data_v);
  if (use_gen) { MIR_gen_init (ctx); MIR_gen_set_optimize_level (ctx, (unsigned) use_gen - 1); MIR_link (ctx, MIR_set_lazy_gen_interface, NULL); } /* only the entries that run get generated */
  else MIR_link (ctx, MIR_set_interp_interface, NULL);
  for (int k = 0; k < info->n_entries; k++) {
    MIR_item_t f = mg_find_item (ctx, m, info->entry_name[k]);
    for (int j = 0; j < MG_NINPUTS; j++) {
      if (f == NULL) { results[k * MG_NINPUTS + j] = 0x0badf00d; continue; }
      if (use_gen) results[k * MG_NINPUTS + j] = ((int64_t (*) (int64_t, int64_t)) f->addr) (mg_inputs[j][0], mg_inputs[j][1]);
      else { MIR_val_t r, v[2]; v[0].i = mg_inputs[j][0]; v[1].i = mg_inputs[j][1]; MIR_interp_arr (ctx, f, &r, 2, v); results[k * MG_NINPUTS + j] = r.i; }
    }
  }
  if (use_gen) MIR_gen_finish (ctx);
}
#endif
