"""C19: container headers vs abstract models (ASan + full UBSan, header-only harness)."""
import re
import subprocess
from vlib import build, common

HDR_FLAGS = ["-std=gnu11", "-O1", "-g", "-fno-omit-frame-pointer", "-fsanitize=address,undefined",
             "-fno-sanitize=alignment", "-fno-sanitize-recover=all", "-w"]

RULE = ("exhaustive modes enumerate every operation sequence of the stated length by index (all distinct); random modes derive "
        "one sequence per case index from VERIF_SEED. non-trivial: htab-exh = some operation met an element already in the table; "
        "bm-grid = the destination really changes; dlist-exh = every operation of the sequence was applicable; random cases = all")


def total(exe, mode, extra):
    out = subprocess.run([exe, "--mode", mode, "--extra", str(extra), "--query"], stdout=subprocess.PIPE, text=True).stdout
    return int(re.search(r"TOTAL (\d+)", out).group(1))


def run(tier):
    res = common.Result("C19")
    exe = build.build_harness("c19", ["c19_containers.c"], "asan", link_lib=False, flags_override=HDR_FLAGS, hdr_only=True)
    seed = common.seed()
    th = tier == "thorough"
    plan = [
        # mode, extra(len), count
        ("htab-exh", 5 if not th else 6, None),
        ("bm-grid", 2 if not th else 3, None),
        ("dlist-exh", 4 if not th else 5, None),
        ("htab-rnd", 0, 400 if not th else 6000),
        ("bm-rnd", 0, 1500 if not th else 40000),
        ("varr-rnd", 0, 600 if not th else 12000),
        ("dlist-rnd", 0, 1500 if not th else 40000),
    ]
    spaces = {}
    for mode, extra, cnt in plan:
        n = cnt if cnt is not None else total(exe, mode, extra)
        spaces[mode] = {"param": extra, "cases": n, "exhaustive": cnt is None}
        common.run_sharded(res, exe, ["--seed", seed, "--tier", tier, "--mode", mode, "--extra", extra], n,
                           env=common.ASAN_ENV, timeout=3000)
    return common.finish(
        res, tier, RULE,
        assumptions=["reference containers (sorted map / bool array / plain array) in h/c19_containers.c are correct",
                     "gcc ASan/UBSan report every out-of-bounds access and UB they are documented to detect"],
        extra={"spaces": spaces,
               "exhaustive_subspaces": "htab-exh (17 ops, 4 keys, 2 hash kinds, with/without free_func), bm-grid (5 ops x all aliasing "
                                       "patterns x representative bitmaps up to N words incl. trailing zero words), dlist-exh (28 ops, 4 nodes)"},
        distinct=res.counters.get("nontrivial", 0),
        floor={"cases_htab-exh": 1, "cases_bm-grid": 1, "cases_dlist-exh": 1, "htab_free_calls": 1, "alloc_realloc": 1})


def replay(path):
    print(open(path).read())
    return 0
