"""Build cache: compiles libmir (and harnesses) from the *current working tree* of the repository.

Every build lives in /verif/.build/<srchash>/<cfg>/ where srchash is a content hash of every
source file of the repository that can influence a build, so an edited tree is always rebuilt.
"""
import fcntl
import hashlib
import os
import shutil
import subprocess
import sys
import time

VERIF = os.path.dirname(os.path.dirname(os.path.abspath(__file__)))
REPO = os.environ.get("VP_REPO", "/repo")
BUILD_ROOT = os.path.join(VERIF, ".build")

UBSAN_SUBSET = ("bounds,object-size,null,nonnull-attribute,returns-nonnull-attribute,return,"
                "unreachable,vla-bound,bool,enum,builtin")

BASE = ["-std=gnu11", "-Wno-abi", "-fsigned-char", "-fPIC", "-fno-tree-sra", "-fno-ipa-cp-clone",
        "-DMIR_VERIF", "-w"]

CFGS = {
    # ship-like: CMake RelWithDebInfo (-O2 -g -DNDEBUG): asserts off, as users get it
    "fast": {"cc": "gcc", "flags": ["-O2", "-g1", "-DNDEBUG"]},
    "asan": {"cc": "gcc", "flags": ["-O1", "-g", "-fno-omit-frame-pointer",
                                    "-fsanitize=address", "-fsanitize=" + UBSAN_SUBSET,
                                    "-fno-sanitize-recover=all",
                                    # MIR's interpreter and its bstart/bend builtins move the stack pointer behind the compiler's
                                    # back, which leaves stale alloca red zones and makes ASan report false dynamic-stack-buffer-overflows
                                    "--param", "asan-instrument-allocas=0"]},
    "tsan": {"cc": "gcc", "flags": ["-O1", "-g", "-fsanitize=thread"]},
    "noinl": {"cc": "gcc", "flags": ["-O2", "-g1", "-DNDEBUG", "-DMIR_MAX_INSNS_FOR_INLINE=0",
                                     "-DMIR_MAX_INSNS_FOR_CALL_INLINE=0"]},
    "allinl": {"cc": "gcc", "flags": ["-O2", "-g1", "-DNDEBUG", "-DMIR_MAX_INSNS_FOR_INLINE=100000",
                                      "-DMIR_MAX_INSNS_FOR_CALL_INLINE=100000",
                                      # every call and inline insn is inlined whatever the callee size, until the caller has grown
                                      # 5 times and beyond 1000 insns (without a bound nested call chains grow exponentially)
                                      "-DMIR_MAX_FUNC_INLINE_GROWTH=500",
                                      "-DMIR_MAX_CALLER_SIZE_FOR_ANY_GROWTH_INLINE=1000"]},
}

# C17: library objects whose direct references to libc's memory functions are renamed to vp_lib_* (defined by the harness)
CFGS["alloc"] = {"cc": "gcc", "flags": ["-O2", "-g1", "-DNDEBUG", "-fno-builtin-malloc", "-fno-builtin-free", "-fno-builtin-calloc", "-fno-builtin-realloc", "-fno-builtin-strdup"],
                 "redefine": ["malloc", "calloc", "realloc", "free", "strdup", "mmap", "munmap", "mprotect"]}

LIB_TUS = ["mir.c", "mir-gen.c", "c2mir/c2mir.c"]

_hash_cache = {}


def _walk_sources(repo):
    out = []
    for root, dirs, files in os.walk(repo):
        rel = os.path.relpath(root, repo)
        top = rel.split(os.sep)[0]
        if top in ("_build", ".git", "c-tests", "c-benchmarks", "mir-tests", "adt-tests", "llvm2mir",
                   "mir-utils"):
            dirs[:] = []
            continue
        for f in files:
            if f.endswith((".c", ".h")):
                out.append(os.path.join(root, f))
    out.sort()
    return out


def src_hash(repo=None):
    repo = repo or REPO
    if repo in _hash_cache:
        return _hash_cache[repo]
    h = hashlib.sha1()
    for p in _walk_sources(repo):
        h.update(os.path.relpath(p, repo).encode())
        with open(p, "rb") as f:
            h.update(hashlib.sha1(f.read()).digest())
    _hash_cache[repo] = h.hexdigest()[:16]
    return _hash_cache[repo]


def _prune(keep):
    """Keep the build cache small: drop trees for other source hashes (oldest first, keep 1 extra)."""
    try:
        ents = [e for e in os.listdir(BUILD_ROOT) if e != keep and not e.startswith(".")]
    except FileNotFoundError:
        return
    ents.sort(key=lambda e: os.path.getmtime(os.path.join(BUILD_ROOT, e)))
    for e in ents[:-1] if len(ents) > 1 else []:
        shutil.rmtree(os.path.join(BUILD_ROOT, e), ignore_errors=True)


class BuildError(Exception):
    pass


def _run(cmd, cwd=None):
    r = subprocess.run(cmd, cwd=cwd, stdout=subprocess.PIPE, stderr=subprocess.STDOUT, text=True)
    if r.returncode != 0:
        raise BuildError("command failed: %s\n%s" % (" ".join(cmd), r.stdout[-4000:]))
    return r.stdout


def _locked(path):
    os.makedirs(os.path.dirname(path), exist_ok=True)
    f = open(path, "w")
    fcntl.flock(f, fcntl.LOCK_EX)
    return f


def cfg_dir(cfg, repo=None):
    base = cfg[4:] if cfg.startswith("hdr-") else cfg
    tag = hashlib.sha1(repr((BASE, CFGS.get(base))).encode()).hexdigest()[:6]  # flag changes rebuild too
    return os.path.join(BUILD_ROOT, src_hash(repo), "%s-%s" % (cfg, tag))


def cfg_flags(cfg):
    c = CFGS[cfg]
    return c["cc"], BASE + c["flags"]


def build_lib(cfg, repo=None, extra_tus=()):
    """Build libmir.a (+ c2m driver) for cfg. Returns dir containing libmir.a and c2m."""
    repo = repo or REPO
    d = cfg_dir(cfg, repo)
    stamp = os.path.join(d, "lib.ok")
    if os.path.exists(stamp):
        return d
    lock = _locked(os.path.join(BUILD_ROOT, ".lock-%s-%s" % (src_hash(repo), cfg)))
    try:
        if os.path.exists(stamp):
            return d
        _prune(src_hash(repo))
        os.makedirs(d, exist_ok=True)
        cc, flags = cfg_flags(cfg)
        procs = []
        objs = []
        for tu in LIB_TUS:
            o = os.path.join(d, tu.replace("/", "_")[:-2] + ".o")
            objs.append(o)
            cmd = [cc] + flags + ["-I", repo, "-c", os.path.join(repo, tu), "-o", o]
            procs.append((cmd, subprocess.Popen(cmd, stdout=subprocess.PIPE, stderr=subprocess.STDOUT, text=True)))
        for cmd, p in procs:
            out, _ = p.communicate()
            if p.returncode != 0:
                raise BuildError("command failed: %s\n%s" % (" ".join(cmd), out[-4000:]))
        lib = os.path.join(d, "libmir.a")
        if os.path.exists(lib):
            os.unlink(lib)
        red = CFGS[cfg].get("redefine")
        if red:
            for o in objs:
                _run(["objcopy"] + sum([["--redefine-sym", "%s=vp_lib_%s" % (x, x)] for x in red], []) + [o])
        _run(["ar", "rcs", lib] + objs)
        # c2m driver
        if not red:
            _run([cc] + flags + ["-I", repo, os.path.join(repo, "c2mir/c2mir-driver.c"), lib, "-lm", "-ldl",
                                 "-lpthread", "-o", os.path.join(d, "c2m")])
        open(stamp, "w").write(time.ctime())
        return d
    finally:
        lock.close()


def build_harness(name, srcs, cfg, repo=None, extra=(), link_lib=True, cc=None, libs=("-lm", "-ldl", "-lpthread"),
                  hdr_only=False, flags_override=None):
    """Compile /verif/h sources (+ libmir for cfg) into an executable. Returns its path.
    Keyed by repo source hash + content hash of every file in /verif/h (cheap and safe)."""
    repo = repo or REPO
    hd = os.path.join(VERIF, "h")
    hh = hashlib.sha1()
    for f in sorted(os.listdir(hd)):
        p = os.path.join(hd, f)
        if os.path.isfile(p):
            hh.update(f.encode())
            hh.update(open(p, "rb").read())
    hh.update(repr((extra, libs, cc, flags_override)).encode())
    key = hh.hexdigest()[:12]
    d = cfg_dir(cfg if not hdr_only else "hdr-" + cfg, repo)
    exe = os.path.join(d, "%s-%s" % (name, key))
    if os.path.exists(exe):
        return exe
    libd = build_lib(cfg, repo) if link_lib else None
    lock = _locked(os.path.join(BUILD_ROOT, ".lock-h-%s-%s-%s" % (src_hash(repo), cfg, name)))
    try:
        if os.path.exists(exe):
            return exe
        os.makedirs(d, exist_ok=True)
        # drop stale versions of this harness
        for f in os.listdir(d):
            if f.startswith(name + "-") and f != os.path.basename(exe):
                try:
                    os.unlink(os.path.join(d, f))
                except OSError:
                    pass
        ccd, flags = cfg_flags(cfg)
        if flags_override is not None:
            flags = list(flags_override)
        cmd = [cc or ccd] + flags + list(extra) + ["-I", repo, "-I", hd]
        cmd += [s if os.path.isabs(s) else os.path.join(hd, s) for s in srcs]
        if link_lib:
            cmd += [os.path.join(libd, "libmir.a")]
        cmd += list(libs) + ["-o", exe + ".tmp"]
        _run(cmd)
        os.rename(exe + ".tmp", exe)
        return exe
    finally:
        lock.close()


if __name__ == "__main__":
    for c in sys.argv[1:] or ["fast"]:
        t = time.time()
        print(c, build_lib(c), "%.1fs" % (time.time() - t))
