"""C15: exhaustive acceptance-table sweep over MIR_new_insn_arr / MIR_finish_func (fast + asan builds)."""
import re
import subprocess
from vlib import build, common

RULE = ("single = every fixed-arity opcode x operand position x operand kind (40 kinds) with the other positions valid, enumerated by "
        "index (all distinct); arity = every opcode value 0..INSN_BOUND+2 x 0..6 operands; special = enumerated ret/call/switch/"
        "overflow-branch/declaration/vararg rules; pairs (thorough) = two positions varied at once. Each case builds one function in a "
        "fresh context and calls MIR_finish_func with a longjmp-ing error function. non-trivial = cases with a definite expectation "
        "(accepted-as-documented + rejected-with-specific-code), i.e. excluding combinations MIR.md leaves unspecified")


def total(exe, mode):
    out = subprocess.run([exe, "--mode", mode, "--query"], stdout=subprocess.PIPE, text=True).stdout
    return int(re.search(r"TOTAL (\d+)", out).group(1))


def run(tier):
    res = common.Result("C15")
    th = tier == "thorough"
    spaces = {}
    for cfg in ("fast", "asan"):
        exe = build.build_harness("c15", ["c15_accept.c"], cfg)
        modes = ["single", "arity", "special"] + (["pairs"] if th and cfg == "fast" else [])
        for mode in modes:
            n = total(exe, mode)
            spaces["%s/%s" % (cfg, mode)] = n
            common.run_sharded(res, exe, ["--mode", mode], n, env=common.ASAN_ENV, timeout=3000,
                               crash_fp_prefix="crash:%s" % mode)
    judged = res.counters.get("accepted_as_documented", 0) + res.counters.get("rejected_with_specific_code", 0)
    return common.finish(
        res, tier, RULE,
        assumptions=["the acceptance table in h/c15_accept.c is a faithful transcription of MIR.md (DESIGN.md appendix A)",
                     "combinations MIR.md is silent about (ref/str operands in integer input positions, FP registers in ADDR*) are observed, not judged"],
        extra={"exhaustive": True, "spaces": spaces,
               "exhaustive_subspace": "single-fault sweep, arity sweep and the enumerated special rules are complete enumerations; pairs only in thorough"},
        distinct=judged // 2 if judged else 0,  # every case runs on two builds; count each distinct case once
        floor={"accepted_as_documented": 100, "rejected_with_specific_code": 1000})


def replay(path):
    print(open(path).read())
    return 0
