#!/usr/bin/env python3
"""Regenerates /verif/MANIFEST.json from the table below (single source of truth for what is claimed)."""
import json
import os
import subprocess

V = os.path.dirname(os.path.dirname(os.path.abspath(__file__)))

TECH = "runtime monitoring: "
CHECKS = {
    "C19": dict(
        technique=TECH + "reference-model oracle over exhaustive + random operation sequences under ASan/UBSan",
        text="Every operation of mir-htab.h/mir-bitmap.h/mir-varr.h/mir-dlist.h is executed on the real headers under ASan+UBSan with "
             "the headers' own checking on, and after each operation the return value and the complete observable content are compared "
             "with a trivially correct reference container. Exhaustive over short sequences on tiny universes (colliding hash, initial "
             "size 2; all dst/src aliasing patterns and operand lengths incl. trailing zero words), random beyond. Held on what was enumerated/sampled.",
        note="Trusted: the reference containers in h/c19_containers.c, gcc's ASan/UBSan. Not covered: sequences longer than the exhaustive bound "
             "that are not hit by the random generator; hash functions other than the four used.",
        design="3/C19"),
    "C12": dict(
        technique=TECH + "round-trip identity + exhaustive/sampled stream-corruption oracle under ASan/UBSan",
        text="The real encoder/decoder of mir-reduce.h run under ASan+UBSan on every payload over small alphabets up to the stated lengths plus "
             "generated long/periodic/incompressible/multi-buffer payloads; each encoding is decoded back (identity) and then every truncation, "
             "extension, all 255 substitutions per position (short streams), deletions, insertions and swaps are decoded and must be reported as "
             "failures without any sanitizer report; grammar-aware crafted streams attack the decoder's bounds. Accepted damaged streams are split "
             "by comparing payloads (identical / different) and by recomputing the format's check hash.",
        note="Trusted: payload comparison, gcc ASan/UBSan (heap block of struct reduce_data is exactly sized so overruns of buf[] hit a red zone). "
             "Two open known findings (equivalent reference offsets; mir_hash_strict collisions on repeated-byte blocks) are announced, not masked: "
             "any other accepted damaged stream is a violation. Long streams are mutated by sampling, not exhaustively.",
        design="3/C12"),
    "C15": dict(
        technique=TECH + "exhaustive acceptance-table oracle (transcribed from MIR.md) over the real constructors with a longjmp-ing error callback",
        text="Every fixed-arity opcode x operand position x 40 operand kinds (registers of each type, each immediate kind, memory of each type "
             "incl. block/undef, label, item references, string, bad base/index/undeclared registers) is built through MIR_new_insn_arr and "
             "MIR_finish_func in a fresh context on the fast and the ASan/assert builds, and the outcome (accepted / error code / crash) is compared "
             "with an acceptance table written from MIR.md, independent of insn_descs. Plus an arity sweep over every opcode value and an "
             "enumerated list of ret/call/switch/overflow-branch/declaration/vararg rules; thorough adds all two-position combinations. The "
             "single-fault space is enumerated completely.",
        note="Trusted: my transcription of MIR.md (DESIGN.md appendix A); combinations MIR.md is silent about are counted as 'unspecified' and not judged. "
             "Faults involving three or more operands at once are not enumerated.",
        design="3/C15"),
    "C13": dict(
        technique=TECH + "history replay against a sequential model of the global-name table; probes executed through the real link/interp/gen paths",
        text="Histories of load_module / load_external / link / redefinition-permission operations are executed on the real library (fast and "
             "ASan/assert builds, all four execution interfaces). A 40-line sequential model predicts for every module linked at a step which "
             "definition each of its imports (function via call, inline, call through a register; data via address) and each of its own "
             "definitions must reach, when the resolver must be consulted and which error must be raised; every probe is executed right after "
             "its link step and again at the end of the history. Exhaustive over all histories of the stated length on a 5-module universe, random beyond.",
        note="Trusted: the table model. One interface per context; under lazy-BB generation probing is deferred to the end of the history (functions "
             "already executed under lazy-BB cannot be inlined by later modules - recorded in DESIGN.md as out of this property). A function export "
             "arriving after an external of the same name without permission is treated as unspecified.",
        design="3/C13"),
    "C02": dict(
        technique=TECH + "reference-semantics oracle (transcribed from MIR.md) over opcode x operand-form x engine, boundary-value grid",
        text="For every non-control opcode and every compare/branch opcode a module with one function per operand form (registers, every "
             "dst/src aliasing, memory of every legal type for every operand incl. neighbour-clobber detection, base+index*scale+disp, "
             "immediates specialised per grid value in either position, both immediates) is run on interp, interp through the C interface and "
             "gen -O0..-O3 over the full cross product of a 46-value integer / 30-value FP boundary grid (~38M evaluations) and compared with an "
             "independent implementation of MIR.md's semantics, so a fault shared by all engines (loader, simplifier) is also seen. Fast and "
             "ASan/assert builds.",
        note="Trusted: h/sem.h (my transcription of MIR.md). Values outside the grid are not sampled in quick; results MIR.md leaves undefined "
             "are not compared.",
        design="3/C02"),
    "C01": dict(
        technique=TECH + "generated whole programs run on every engine and compared with an independent reference interpreter of the program "
                         "AST (result, memory, module data, ordered external-call log); ASan/UBSan/assert build as second monitor",
        text="Structured random single-module programs (1-8 functions; 64/32-bit integer and FP code, narrow memory accesses with "
             "base+index*scale+disp over three regions, bounded and nested loops, if/else on every branch class incl. overflow branches, "
             "switch, laddr/jmpi and lref dispatch, irreducible loops, allocas, calls, inline calls, bounded recursion, logging external "
             "calls) run on 6 input pairs by MIR_interp and generated code at -O0..-O3; every observable is compared with the reference model, "
             "which shares no code with the library. Fast and ASan/assert builds; dispatch programs in their own sub-run.",
        note="Trusted: h/prog.h reference model + h/sem.h. Programs are well-defined by construction; features MIR.md leaves undefined are "
             "never generated. The laddr/jmpi sub-run reports the open finding jmpi-edge-split.",
        design="3/C01"),
    "C03": dict(
        technique=TECH + "same generated programs across all execution interfaces (interp, interp C interface, eager/lazy/lazy-BB generation) "
                         "against the reference model, repeated entry calls in random order, public address stability",
        text="Programs of 1-3 modules with imports/exports are linked once per interface (MIR_set_interp_interface, MIR_interp, "
             "MIR_set_gen_interface, MIR_set_lazy_gen_interface, MIR_set_lazy_bb_gen_interface at -O0 and -O2) and the entry is called 9 times "
             "with 6 input pairs in random order through item->addr, so lazy thunks are taken on first and later calls; results, memory, "
             "module data and external-call order must equal the reference model and item->addr must never change.",
        note="Trusted: reference model. One interface per context (mixing interfaces in one context is C16's subject).",
        design="3/C03"),
    "C04": dict(
        technique=TECH + "reference model executes the program as written; library built three ways (default, never-inline, always-inline) "
                         "so every call site is seen both called and inlined",
        text="Programs of 1-2 modules biased to what MIR_link's simplification and inlining rewrite (call/inline insns with narrow "
             "argument and result types, multiple results, allocas in caller and callee incl. the frame-first shape c2mir emits, early "
             "returns, recursion, memory operands that simplification splits) run by MIR_interp, gen -O0 and gen -O2 on three builds of the "
             "library whose inlining thresholds differ; all are compared with the reference model, which never inlines or simplifies.",
        note="Trusted: reference model. The always-inline build bounds caller growth (5x / 1000 insns) to keep nested call chains finite.",
        design="3/C04"),
    "C05": dict(
        technique=TECH + "differential execution against a gcc-only build: c2mir-compiled MIR callers (interp, gen -O0..-O3, lazy, lazy BB; ASan/assert "
                         "build) calling gcc-compiled callees that print every received argument and check stack alignment",
        text="Generated signatures with 0-16 parameters of every C scalar type, by-value structs of every SysV passing class, every result type, and "
             "variadic callees with named integer/fp parameters beyond the register files and tails of up to 14 mixed values; boundary values per "
             "type. The MIR side (prototypes, block types, extensions) is what c2mir derives from the C declarations.",
        note="Trusted: gcc as the C ABI. Multiple-result prototypes and raw MIR block types that no C declaration produces are outside this check.",
        design="3/C05"),
    "C06": dict(
        technique=TECH + "differential execution against a gcc-only build in the callee direction, with register/control-word sentinels checked by the "
                         "native caller and alloca alignment checked in the MIR callee",
        text="gcc-compiled code calls c2mir-compiled MIR functions (same signature space as C05, variadic ones reading their tail with va_arg) through "
             "their addresses under every interface; rbx, r12-r15, MXCSR and the x87 control word are sampled around each call; the callee prints its "
             "parameters, uses a 16-byte aligned alloca block and calls out to native code.",
        note="Trusted: gcc as the C ABI; rbp/rsp integrity is implied by the caller continuing to run and print correctly.",
        design="3/C06"),
    "C07": dict(
        technique=TECH + "differential execution of generated UB-free C programs: c2m (ASan/UBSan/assert build) on every engine vs gcc, with a second gcc "
                         "build (-O2 -fsanitize=undefined) as a guard that the program is well defined",
        text="Generated programs exercise integer promotions and usual arithmetic conversions between every pair of types, mixed signed/unsigned "
             "comparisons, casts incl. _Bool, shifts, guarded division, ?:, &&, ||, comma, compound assignment, bit-field reads/writes and static "
             "initialisers, struct copies, loops, switch with constant-expression labels, recursion-free calls with mixed parameter types; every "
             "constant expression is used both where it is folded at compile time (static initialiser, enum value, array size, case label) and "
             "at run time; sizeof of mixed-type expressions exposes the result types. Output and exit status must equal gcc's on -ei, -eg -O0/-O2/-O3, "
             "-el, -eb.",
        note="Trusted: gcc as the reference; type-based aliasing rules are respected by construction (c2mir uses them). Calls between the two "
             "compilers' code are covered by C05/C06/C08.",
        design="3/C07"),
    "C08": dict(
        technique=TECH + "differential execution against the platform compiler: layout probes (sizeof/_Alignof/offsetof/bit-field byte images) and "
                         "by-value passing between c2m-compiled and gcc-compiled code in both directions; c2m is the ASan/UBSan/assert build",
        text="Generated struct/union/enum/bit-field declarations (nesting, anonymous members, arrays, every scalar kind, bit-fields of every base "
             "type and width incl. zero-width and unnamed) are probed under gcc and under c2m (-ei, -eg); for several of the types, functions taking and "
             "returning them by value after 0-6 integer / 0-8 double / long double arguments are compiled by gcc into a shared object, called from "
             "c2m code and calling back into c2m code; every member received on either side must equal the gcc-only run.",
        note="Trusted: gcc on x86-64 Linux as the ABI. Open finding unnamed-bit-field-layout (types containing unnamed bit-fields).",
        design="3/C08"),
    "C09": dict(
        technique=TECH + "differential execution of the preprocessor: c2m -E (ASan/UBSan/assert build) vs gcc -E -P on generated macro sets, invocations "
                         "and #if expressions, token strings compared",
        text="Generated translation units (object/function-like/variadic macros, #, ##, nested, recursive and mutually recursive names, empty and "
             "parenthesised arguments, names taking arguments from following text, #undef, stringified expansions, #if/#elif over random "
             "(u)intmax_t expressions) are preprocessed by both tools; the outputs after a marker are compared as white-space-free token strings; "
             "rejection of input the reference accepts, a crash, a sanitizer report or a hang of c2m are violations too.",
        note="Trusted: gcc as the conforming preprocessor. Input on which gcc warns about undefined constructs is discarded. Spacing between tokens "
             "(also inside stringified expansions) is not compared.",
        design="3/C09"),
    "C17": dict(
        technique=TECH + "checking allocator + checking code allocator passed to MIR_init2 (ledger of every block and code region, poisoned "
                         "quarantine, real page protection with fault attribution), libc memory symbols of the library objects redirected by objcopy, "
                         "ASan build with the ledger over real malloc blocks",
        text="Error-free API histories (c2mir compile, MIR text programs, binary round trip into a second context, output, every link interface "
             "and optimisation level, execution, hand-written shapes for long code and two-label lrefs, finish calls in the documented order) run "
             "with allocators that check the documented contract on every call: true old size on realloc, no double or foreign free, nothing "
             "written after free, nothing live and nothing mapped after the finish calls, code written only inside a WRITE_EXEC window, and no "
             "direct libc allocation from library code.",
        note="Trusted: the ledger allocators (h/c17_alloc.c). Error paths (MIR error callbacks) are out of scope: the property speaks of error-free "
             "histories.",
        design="3/C17"),
    "C18": dict(
        technique=TECH + "ThreadSanitizer build of the whole library under N threads with one context each, barriers lining up init / generation / "
                         "execution windows, plus per-thread results compared with a single-threaded reference-model prediction",
        text="Threads loop over complete single-context workloads (MIR text programs, C sources through c2mir, binary round trips, output, every "
             "link interface and optimisation level, interpreted code with hard-register globals, finish calls) with staggered and lined-up context "
             "creation and destruction. Every ThreadSanitizer report in library code and every difference from the single-threaded prediction is "
             "a violation; a fatal signal in the threaded run is one too.",
        note="Trusted: TSan's happens-before model; JIT-generated code is not instrumented (its data are thread-private). Repeated with several "
             "seeds per tier because race reports depend on the schedule.",
        design="3/C18"),
    "C20": dict(
        technique=TECH + "differential execution: gcc-compiled mir2c translation of generated programs vs MIR_interp (and the reference model) on "
                         "results, memory, data section and external-call order; translator run under a watchdog and an ASan/assert build",
        text="Generated single-result programs (h/prog.h) are translated by MIR_module2c; the translation unit must be accepted by gcc (-O1 -fwrapv "
             "-fno-strict-aliasing), is loaded as a shared object and called on 6 input pairs; every observable must equal the interpreter's. "
             "A translator that does not terminate, aborts or emits C the compiler rejects is a violation with its own fingerprint.",
        note="Trusted: gcc as the reference compiler with wrap-around signed arithmetic; lref data items are not generated (mir2c has no C form "
             "for them - recorded in DESIGN.md as outside what the property's 'well-defined single-result modules' list names).",
        design="3/C20"),
    "C14": dict(
        technique=TECH + "layout/content oracle recomputed from the declarations, read from the live process after load+link",
        text="Generated modules of 3-40 data-like items (every element type, lengths incl. 0, named/anonymous mixtures, sections interrupted by "
             "other items, refs to earlier/later items through forward or export declarations, to functions, to another module's exports and to "
             "externals, expr items of every result type, single- and two-label lrefs) are scanned, loaded and linked under the interpreter, the "
             "eager and the lazy generator; the harness recomputes each section's layout from declaration order and sizes and reads every item's "
             "address and bytes from memory (data = declared bytes, bss zero, ref = target+disp, expr = value computed independently, "
             "single-label lref reached by an indirect jump and equal to laddr, two-label lref equal to the same engine's laddr difference).",
        note="Trusted: my own size table (ld = 16 bytes on x86-64) and the section rule of MIR.md. Section tail padding is not judged.",
        design="3/C14"),
    "C16": dict(
        technique=TECH + "history oracle: every observation after generation is compared with the observation made before any generation",
        text="Histories over a linked program (generated executable functions plus helpers needing builtin prototypes, alloca, varargs, multiple "
             "results and a hard-register-tied global) mix MIR_gen at random levels and orders, repeated MIR_gen (same address), textual output "
             "of every item of the module (unchanged), interpretation and calls through public/generated addresses (unchanged results), and "
             "later modules that call and inline the generated functions (expected value computed from the baseline); under the interpreter "
             "interface with explicit MIR_gen, eager generation at link and lazy generation; fast and ASan/assert builds.",
        note="Histories currently use -O0/-O1 only (checks/c16.py MAX_LEVEL) because generated entry functions with laddr+jmpi hit a generator "
             "defect at -O2/-O3 that belongs to C01. One open known finding (lref tables are shared by the engines) is exercised in a forked "
             "sub-run only. Lazy basic-block generation is out of the property's scope.",
        design="3/C16"),
    "C10": dict(
        technique=TECH + "round-trip oracle: structural module comparison through the public API + text fixpoint + differential execution",
        text="Modules covering the whole item/insn/operand vocabulary are built through the API, written by MIR_output_module, scanned back into a "
             "fresh context and compared field by field with the original (so a writer and scanner that agree on a wrong text are still caught); "
             "the re-read module must print to a byte-identical fixpoint and its executable entry functions must return the same results "
             "(interpreter, lazy generation at -O0/-O1). A per-case watchdog turns a non-terminating writer into a violation. Runs on the fast and "
             "the ASan/assert builds.",
        note="Trusted: the structural comparator in h/modgen.h. Integer immediates are compared modulo 2^64. One open known finding (string "
             "operands without trailing NUL are not expressible in text) is exercised by a dedicated sub-run only. Non-finite FP immediates are "
             "excluded as the property says.",
        design="3/C10"),
    "C11": dict(
        technique=TECH + "round-trip oracle: byte determinism of two writes + structural comparison after MIR_read + second generation + differential execution",
        text="The same generated modules (plus non-finite FP immediates, strings without NUL, high-entropy blobs, 1-3 modules per stream, multi-buffer "
             "streams, streams whose uncompressed length sits exactly on a compression-buffer multiple, and mixed-origin streams written by a context "
             "that first read modules and then built more) are written twice (bytes must be equal), read into a fresh context, compared field by "
             "field with the originals (immediates bit for bit, lref labels attached to the same labels), printed (text equal), written and read "
             "again, loaded, linked and executed.",
        note="Trusted: the structural comparator. Byte equality of write(read(B)) with B is deliberately not required: long double padding bytes "
             "are indeterminate in memory (see DESIGN.md corrections log).",
        design="3/C11"),
}

REASON_TODO = "check not built yet (work in progress; DESIGN.md section 3 describes the planned monitor)"
REASONS = {
    "C07": "not claimed: the differential monitor exists (checks/c07.py: generated UB-free C programs, c2m -ei/-eg/-el/-eb vs gcc, plus probes for three "
           "confirmed c2mir defects) and the technique applies, but on the unchanged tree it still reports mismatches that were not triaged to a root "
           "cause before the end of the session (a function result that differs between generated code and the interpreter/gcc, and c2mir rejecting a "
           "division by zero inside an unevaluated constant subexpression); a check that alarms on the unchanged tree may not be registered, and the "
           "alarms may not be silenced without knowing whether each is a defect - see DESIGN.md section 9",
}


def main():
    props = [json.loads(l)["id"] for l in open(os.path.join(V, "properties.jsonl"))]
    hooks_commits = []
    try:
        out = subprocess.run(["git", "-C", "/repo", "log", "--format=%H %s"], stdout=subprocess.PIPE, text=True).stdout
        for ln in out.splitlines():
            h, _, s = ln.partition(" ")
            if s.startswith("hooks:") or s.startswith("verif hooks"):
                hooks_commits.append(h[:12])
    except Exception:
        pass
    m = {
        "version": 1,
        "setup_cmd": "./run setup",
        "hooks": {
            "guard": "MIR_VERIF",
            "enable": "every library build made by ./run passes -DMIR_VERIF (vlib/build.py BASE flags)",
            "baseline_off_cmd": "/verif/tools/baseline.sh",
            "source_commits": hooks_commits,
            "add_only": True,
        },
        "checks": [],
        "not_applicable": [],
        "notes": "All checks are runtime monitors (see DESIGN.md). Known findings: /verif/known_findings.json. Seeded mutants: /verif/seeded/.",
    }
    for p in props:
        if p in CHECKS:
            c = CHECKS[p]
            m["checks"].append({
                "property_id": p,
                "quick_cmd": "./run %s --tier quick" % p,
                "thorough_cmd": "./run %s --tier thorough" % p,
                "evidence_file": "/verif/evidence/%s.json" % p,
                "replay_cmd_template": "./run %s --replay {path}" % p,
                "level_claimed": {"category": c.get("category", "exploration"), "text": c["text"], "design_ref": c["design"]},
                "level_note": c["note"],
                "technique": c["technique"],
            })
        else:
            m["not_applicable"].append({"property_id": p, "reason": REASONS.get(p, REASON_TODO)})
    with open(os.path.join(V, "MANIFEST.json"), "w") as f:
        json.dump(m, f, indent=1)
        f.write("\n")
    print("checks:", [c["property_id"] for c in m["checks"]])


if __name__ == "__main__":
    main()
