#!/bin/sh
# usage: tools/confirm_seed.sh <seed-dir>  -- independent confirmation in a scratch worktree: tests pass with patch, demo fails with / passes without
S=$(realpath "$1"); W=/tmp/confirm.$$
git -C /repo worktree add -q --detach $W HEAD || exit 9
cd $W
cmake -G Ninja -S $W -B $W/_build -DCMAKE_BUILD_TYPE=RelWithDebInfo >/dev/null 2>&1
cmake --build $W/_build -j8 -- -k 0 >/dev/null 2>&1
sh $S/demo.sh $W >/tmp/confirm.clean.log 2>&1; echo "demo on clean tree: rc=$?"
git apply $S/patch.diff || echo "APPLY FAILED"
cmake --build $W/_build -j8 -- -k 0 >/dev/null 2>&1
ctest --test-dir $W/_build -j8 --timeout 900 2>&1 | grep -E "tests passed|tests failed"
sh $S/demo.sh $W >/tmp/confirm.mut.log 2>&1; echo "demo on mutated tree: rc=$?"
cd /; git -C /repo worktree remove --force $W
