#!/usr/bin/env python3
"""For every repaired defect (known_findings.json, status fixed) undo the repair in /repo's working tree (git apply -R of the fix commit), run the
owning check at the quick tier and record whether it reports a violation; the working tree is restored after every run.  A reverted repair is a
realistic breaking change with a known answer.  Writes seeded/reverted_fixes.json.  usage: tools/revfix_matrix.py [--tier thorough] [--only <commit>] [property ...]
(with --tier thorough or --only the result is printed only, seeded/reverted_fixes.json keeps the quick-tier matrix)"""
import json, os, re, subprocess, sys, time
os.chdir("/verif")
KF = json.load(open("known_findings.json"))["findings"]
argv = sys.argv[1:]
TIER, ONLY = "quick", None
while argv and argv[0].startswith("--"):
    if argv[0] == "--tier":
        TIER = argv[1]
    elif argv[0] == "--only":
        ONLY = argv[1]
    argv = argv[2:]
want = set(argv)
rows = []
if subprocess.run(["git", "-C", "/repo", "diff", "--quiet"]).returncode != 0:
    sys.exit("/repo working tree is dirty")
seen = set()
for e in KF:
    if e.get("status") != "fixed" or (want and e["property"] not in want) or (ONLY and not e["commit"].startswith(ONLY)):
        continue
    key = (e["property"], e["commit"])
    if key in seen:
        continue
    seen.add(key)
    diff = subprocess.run(["git", "-C", "/repo", "show", "--format=", e["commit"]], stdout=subprocess.PIPE).stdout
    chk = subprocess.run(["git", "-C", "/repo", "apply", "-R", "--check", "-"], input=diff, stderr=subprocess.PIPE)
    row = {"property": e["property"], "finding": e["id"], "commit": e["commit"]}
    if chk.returncode != 0:
        row["result"] = "not-revertible (later changes touch the same lines)"
        rows.append(row); print(row, flush=True); continue
    subprocess.run(["git", "-C", "/repo", "apply", "-R", "-"], input=diff, check=True)
    t = time.time()
    try:
        r = subprocess.run(["./run", e["property"], "--tier", TIER], stdout=subprocess.PIPE, stderr=subprocess.STDOUT, text=True, timeout=3600 if TIER == "quick" else 6 * 3600)
        out, rc = r.stdout, r.returncode
    except subprocess.TimeoutExpired:
        out, rc = "", -1
    finally:
        subprocess.run(["git", "-C", "/repo", "checkout", "--", "."], check=True)
    fps = sorted(set(re.findall(r"fingerprint=(\S+)", out)))
    row.update(result="detected" if rc == 1 and "VIOLATION property=%s" % e["property"] in out else "missed (exit %d)" % rc, fingerprints=fps[:6], seconds=round(time.time() - t))
    rows.append(row); print(row, flush=True)
if TIER != "quick" or ONLY:
    sys.exit(0)
old = []
if want and os.path.exists("seeded/reverted_fixes.json"):
    old = [r for r in json.load(open("seeded/reverted_fixes.json"))["rows"] if r["property"] not in want]
json.dump({"comment": __doc__, "rows": old + rows}, open("seeded/reverted_fixes.json", "w"), indent=1)
print("detected %d / revertible %d / total %d" % (sum(r["result"] == "detected" for r in rows), sum(not r["result"].startswith("not-") for r in rows), len(rows)))
