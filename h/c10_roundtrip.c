/* C10 (text) and C11 (binary) round trips of API-built modules over the full vocabulary.
   --mode text:   T1=output(M); R1=scan(T1); M ==struct R1; T2=output(R1); T3=output(scan(T2)); T2==T3 bytes; exec(M')==exec(scan(T1))
   --mode binary: B1=write(M) twice (bytes equal); R=read(B1); M ==struct R; text(M)==text(R); write(R)==B1; exec equal; load+link of R
   --extra FEATMASK  generator feature mask (see modgen.h) */
#include "modgen.h"
#include "mir-reduce.h"

static long cur_case;
static const char *cur_mode;
static uint64_t gseed;
static unsigned gfeat;

static long n_struct_ok, n_fix_ok, n_exec_ok, n_bytes_ok, n_large, n_exec_gen, n_mixed_ok;
static uint64_t all_item_kinds, all_data_types, all_op_kinds;
static int max_str_bytes;

static char *out_module (MIR_context_t ctx, MIR_module_t m, size_t *len) {
  vp_mem_t ms; vp_mem_open (&ms);
  MIR_output_module (ctx, ms.f, m);
  vp_mem_close (&ms);
  *len = ms.len;
  return ms.p;
}
static void excerpt (char *dst, size_t dsz, const char *a, size_t la, const char *b, size_t lb) {
  size_t i = 0;
  while (i < la && i < lb && a[i] == b[i]) i++;
  size_t s = i > 60 ? i - 60 : 0;
  snprintf (dst, dsz, "first difference at byte %zu\n--- A: %.160s\n--- B: %.160s", i, a + s, b + s);
}

/* binary stream in memory */
typedef struct { uint8_t *p; size_t len, cap, pos; } bs_t;
static bs_t *cur_w, *cur_r;
static int bs_writer (MIR_context_t ctx, uint8_t byte) {
  bs_t *b = cur_w;
  if (b->len == b->cap) { b->cap = b->cap ? b->cap * 2 : 4096; b->p = realloc (b->p, b->cap); }
  b->p[b->len++] = byte;
  return 1;
}
static int bs_reader (MIR_context_t ctx) { bs_t *b = cur_r; return b->pos < b->len ? b->p[b->pos++] : EOF; }

/* decompress a binary MIR stream (for diagnostics only) */
typedef struct { const uint8_t *p; size_t len, pos; uint8_t *out; size_t olen, ocap; } dec_t;
static size_t dec_rd (void *start, size_t len, void *aux) { dec_t *d = aux; size_t n = d->len - d->pos < len ? d->len - d->pos : len; if (n) memcpy (start, d->p + d->pos, n); d->pos += n; return n; }
static size_t dec_wr (const void *start, size_t len, void *aux) { dec_t *d = aux; if (d->olen + len > d->ocap) { d->ocap = (d->olen + len) * 2; d->out = realloc (d->out, d->ocap); } memcpy (d->out + d->olen, start, len); d->olen += len; return len; }
static void *dm (size_t s, void *u) { return malloc (s); }
static void *dc (size_t n, size_t s, void *u) { return calloc (n, s); }
static void *dr (void *p, size_t o, size_t n, void *u) { return realloc (p, n); }
static void df (void *p, void *u) { free (p); }
static void describe_stream_diff (char *dst, size_t dsz, const uint8_t *a, size_t la, const uint8_t *b, size_t lb) {
  struct MIR_alloc al = {dm, dc, dr, df, NULL};
  dec_t da = {a, la, 0, NULL, 0, 0}, db = {b, lb, 0, NULL, 0, 0};
  reduce_decode (&al, dec_rd, dec_wr, &da); reduce_decode (&al, dec_rd, dec_wr, &db);
  size_t i = 0; while (i < da.olen && i < db.olen && da.out[i] == db.out[i]) i++;
  int o = snprintf (dst, dsz, "uncompressed %zu vs %zu bytes, first difference at %zu\nA:", da.olen, db.olen, i);
  for (size_t k = i > 24 ? i - 24 : 0; k < i + 24 && k < da.olen && o < (int) dsz - 8; k++) o += snprintf (dst + o, dsz - o, "%s%02x", k == i ? " [" : " ", da.out[k]);
  o += snprintf (dst + o, dsz - o, "\nB:");
  for (size_t k = i > 24 ? i - 24 : 0; k < i + 24 && k < db.olen && o < (int) dsz - 8; k++) o += snprintf (dst + o, dsz - o, "%s%02x", k == i ? " [" : " ", db.out[k]);
  o += snprintf (dst + o, dsz - o, "\nA text:");
  for (size_t k = i > 40 ? i - 40 : 0; k < i + 40 && k < da.olen && o < (int) dsz - 4; k++) dst[o++] = da.out[k] >= 32 && da.out[k] < 127 ? (char) da.out[k] : '.';
  dst[o] = 0;
  free (da.out); free (db.out);
}

#define TRY_OR(fp, what) else { vp_err_armed = 0; vp_viol (fp, "case=%ld mode=%s %s raised %s (%s)", cur_case, cur_mode, what, vp_err_name (vp_err_type), vp_err_msg); goto out; }

static void text_case (long idx) {
  MIR_context_t c1 = vp_new_ctx (), c2, c3, c4, c5;
  mg_info_t info, info2;
  MIR_module_t m = NULL, r1 = NULL, r2 = NULL;
  char *t1 = NULL, *t2 = NULL, *t3 = NULL; size_t l1 = 0, l2 = 0, l3 = 0;
  mc_diff_t d;
  if (VP_TRY) { m = mg_build (c1, gseed, idx, gfeat, &info); VP_END; } TRY_OR ("generator-rejected", "building the module through the API")
  all_item_kinds |= info.item_kinds; all_data_types |= info.data_types; all_op_kinds |= info.op_kinds;
  if (info.n_str_bytes_distinct > max_str_bytes) max_str_bytes = info.n_str_bytes_distinct;
  vp_dist (info.shape_hash);
  vp_watch (idx, "MIR_output_module", 60);
  if (VP_TRY) { t1 = out_module (c1, m, &l1); VP_END; } TRY_OR ("output-error", "MIR_output_module")
  vp_watch (idx, "scan", 120);
  c2 = vp_more_ctx ();
  if (VP_TRY) { MIR_scan_string (c2, t1); r1 = DLIST_TAIL (MIR_module_t, *MIR_get_module_list (c2)); VP_END; }
  else { vp_err_armed = 0; char fp[96]; snprintf (fp, sizeof fp, "scan-error:%.60s", vp_err_msg + (strncmp (vp_err_msg, "ln ", 3) == 0 ? strcspn (vp_err_msg, ":") + 2 : 0));
    for (char *q = fp; *q; q++) if (*q >= '0' && *q <= '9') *q = 'N';
    vp_viol (fp, "case=%ld the text written by MIR_output_module is rejected by MIR_scan_string: %s\n(seed %llu feat %u; re-run with --verbose to dump the text)", cur_case, vp_err_msg, (unsigned long long) gseed, gfeat); goto out; }
  if (r1 == NULL) { vp_viol ("scan-no-module", "case=%ld scan produced no module", cur_case); goto out; }
  if (!mc_module_equal (c1, m, c2, r1, &d)) { char fp[64]; snprintf (fp, sizeof fp, "struct:%s", d.kind); vp_viol (fp, "case=%ld module re-read from text differs from the original: %s", cur_case, d.msg); goto out; }
  n_struct_ok++;
  if (VP_TRY) { t2 = out_module (c2, r1, &l2); VP_END; } TRY_OR ("output-error", "MIR_output_module of the re-read module")
  c3 = vp_more_ctx ();
  if (VP_TRY) { MIR_scan_string (c3, t2); r2 = DLIST_TAIL (MIR_module_t, *MIR_get_module_list (c3)); t3 = out_module (c3, r2, &l3); VP_END; } TRY_OR ("scan-error-2nd", "second scan/output")
  if (l2 != l3 || memcmp (t2, t3, l2) != 0) { char ex[512]; excerpt (ex, sizeof ex, t2, l2, t3, l3); vp_viol ("text-not-fixpoint", "case=%ld output(scan(T2)) != T2\n%s", cur_case, ex); goto out; }
  n_fix_ok++;
  /* execution: fresh build of the same module vs scan(T1) */
  vp_watch (idx, "execute", 120);
  {
    int64_t ra[MG_MAX_ENTRIES * MG_NINPUTS], rb[MG_MAX_ENTRIES * MG_NINPUTS];
    int use_gen = idx % 3 == 0 ? 1 + (int) (idx / 3 % 2) : 0; /* interp, or lazy gen at -O0/-O1: generator correctness is C01's business */
    MIR_module_t ma = NULL, mb = NULL;
    c4 = vp_more_ctx ();
    if (VP_TRY) { ma = mg_build (c4, gseed, idx, gfeat, &info2); mg_exec_entries (c4, ma, &info2, ra, use_gen); VP_END; } TRY_OR ("exec-original-error", "executing the original module")
    c5 = vp_more_ctx ();
    if (VP_TRY) { MIR_scan_string (c5, t1); mb = DLIST_TAIL (MIR_module_t, *MIR_get_module_list (c5)); mg_exec_entries (c5, mb, &info2, rb, use_gen); VP_END; } TRY_OR ("exec-reread-error", "loading/linking/executing the re-read module")
    for (int k = 0; k < info2.n_entries * MG_NINPUTS; k++)
      if (ra[k] != rb[k]) { vp_viol ("exec-differs", "case=%ld entry %s input #%d: original %lld, re-read %lld (engine %s)", cur_case, info2.entry_name[k / MG_NINPUTS], k % MG_NINPUTS, (long long) ra[k], (long long) rb[k], use_gen ? "gen" : "interp"); goto out; }
    n_exec_ok++; if (use_gen) n_exec_gen++;
  }
out:
  alarm (0);
  vp_err_armed = 0;
  if (cur_case == 0 && t1) vp_sample ("%s", t1);
  free (t1); free (t2); free (t3);
}

static void write_all (MIR_context_t ctx, bs_t *b, MIR_module_t m) { cur_w = b; b->len = 0; if (m) MIR_write_module_with_func (ctx, bs_writer, m); else MIR_write_with_func (ctx, bs_writer); }

static void binary_case (long idx) {
  MIR_context_t c1 = vp_new_ctx (), c2, c4, c5;
  mg_info_t info, info2;
  MIR_module_t m = NULL, r1 = NULL;
  static bs_t b1, b2, b3;
  char *t1 = NULL, *t2 = NULL; size_t l1 = 0, l2 = 0;
  mc_diff_t d;
  int nmods = 1 + (int) (idx % 7 == 0) + (int) (idx % 11 == 0);
  if (VP_TRY) { for (int k = 0; k < nmods; k++) m = mg_build (c1, gseed, idx * 8 + k, gfeat, &info); VP_END; } TRY_OR ("generator-rejected", "building the module through the API")
  all_item_kinds |= info.item_kinds; all_data_types |= info.data_types; all_op_kinds |= info.op_kinds;
  vp_dist (info.shape_hash);
  vp_watch (idx, "MIR_write", 120);
  if (VP_TRY) { write_all (c1, &b1, NULL); write_all (c1, &b2, NULL); VP_END; } TRY_OR ("write-error", "MIR_write_with_func")
  if (b1.len != b2.len || memcmp (b1.p, b2.p, b1.len) != 0) { vp_viol ("write-nondeterministic", "case=%ld two writes of the same modules differ (%zu vs %zu bytes)", cur_case, b1.len, b2.len); goto out; }
  if (b1.len > (1 << 18)) n_large++;
  n_bytes_ok++;
  vp_watch (idx, "MIR_read", 120);
  c2 = vp_more_ctx ();
  b1.pos = 0; cur_r = &b1;
  if (VP_TRY) { MIR_read_with_func (c2, bs_reader); VP_END; }
  else { vp_err_armed = 0; char fp[96]; snprintf (fp, sizeof fp, "read-error:%.60s", vp_err_msg); for (char *q = fp; *q; q++) if (*q >= '0' && *q <= '9') *q = 'N';
    vp_viol (fp, "case=%ld the stream written by MIR_write is rejected by MIR_read: %s (stream %zu bytes, %d modules)", cur_case, vp_err_msg, b1.len, nmods); goto out; }
  /* compare every module */
  {
    MIR_module_t a = DLIST_HEAD (MIR_module_t, *MIR_get_module_list (c1)), b = DLIST_HEAD (MIR_module_t, *MIR_get_module_list (c2));
    for (; a != NULL && b != NULL; a = DLIST_NEXT (MIR_module_t, a), b = DLIST_NEXT (MIR_module_t, b)) {
      if (!mc_module_equal (c1, a, c2, b, &d)) { char fp[64]; snprintf (fp, sizeof fp, "struct:%s", d.kind); vp_viol (fp, "case=%ld module re-read from binary differs from the original: %s", cur_case, d.msg); goto out; }
      r1 = b;
    }
    if (a != NULL || b != NULL) { vp_viol ("struct:module-count", "case=%ld number of modules differs after MIR_read", cur_case); goto out; }
  }
  n_struct_ok++;
  /* text of both (labels keep their numbers in binary, so plain equality is required) */
  if (VP_TRY) { t1 = out_module (c1, m, &l1); t2 = out_module (c2, r1, &l2); VP_END; } TRY_OR ("output-error", "MIR_output_module")
  if (l1 != l2 || memcmp (t1, t2, l1) != 0) { char ex[512]; excerpt (ex, sizeof ex, t1, l1, t2, l2); vp_viol ("text-differs-after-read", "case=%ld the re-read module prints differently\n%s", cur_case, ex); goto out; }
  /* second generation: read(write(read(B))) is still the same module (byte equality of the two streams is NOT required:
     the 6 padding bytes of every long double are indeterminate in memory and are written as they are) */
  if (VP_TRY) { write_all (c2, &b3, NULL); VP_END; } TRY_OR ("write-error", "MIR_write of the re-read modules")
  {
    MIR_context_t c3 = vp_more_ctx ();
    b3.pos = 0; cur_r = &b3;
    if (VP_TRY) { MIR_read_with_func (c3, bs_reader); VP_END; } TRY_OR ("read-error-2nd", "MIR_read of the second-generation stream")
    MIR_module_t a = DLIST_HEAD (MIR_module_t, *MIR_get_module_list (c1)), b = DLIST_HEAD (MIR_module_t, *MIR_get_module_list (c3));
    for (; a != NULL && b != NULL; a = DLIST_NEXT (MIR_module_t, a), b = DLIST_NEXT (MIR_module_t, b))
      if (!mc_module_equal (c1, a, c3, b, &d)) { char fp[64]; snprintf (fp, sizeof fp, "struct-2nd:%s", d.kind); vp_viol (fp, "case=%ld second-generation module differs from the original: %s", cur_case, d.msg); goto out; }
  }
  /* mixed-origin stream: a context that first READ modules and then builds another one (label numbers of the new module
     restart and may coincide with numbers in the modules that were read), written as one stream and read back */
  if (idx % 4 == 0) {
    MIR_context_t c7 = vp_more_ctx (), c8 = vp_more_ctx ();
    static bs_t b5; mg_info_t i7;
    b1.pos = 0; cur_r = &b1;
    if (VP_TRY) { MIR_read_with_func (c7, bs_reader); mg_build (c7, gseed, idx * 8 + 5, gfeat, &i7); write_all (c7, &b5, NULL); VP_END; } TRY_OR ("mixed-write-error", "read + build + write in one context")
    b5.pos = 0; cur_r = &b5;
    if (VP_TRY) { MIR_read_with_func (c8, bs_reader); VP_END; } TRY_OR ("mixed-read-error", "reading a stream of read + newly built modules")
    MIR_module_t a = DLIST_HEAD (MIR_module_t, *MIR_get_module_list (c7)), b = DLIST_HEAD (MIR_module_t, *MIR_get_module_list (c8));
    for (; a != NULL && b != NULL; a = DLIST_NEXT (MIR_module_t, a), b = DLIST_NEXT (MIR_module_t, b))
      if (!mc_module_equal (c7, a, c8, b, &d)) { char fp[64]; snprintf (fp, sizeof fp, "struct-mixed:%s", d.kind); vp_viol (fp, "case=%ld module of a mixed-origin stream differs after read: %s", cur_case, d.msg); goto out; }
    if (a != NULL || b != NULL) { vp_viol ("struct-mixed:module-count", "case=%ld number of modules differs", cur_case); goto out; }
    n_mixed_ok++;
  }
  n_fix_ok++;
  /* execution + loadability of the last module */
  vp_watch (idx, "execute", 120);
  {
    int64_t ra[MG_MAX_ENTRIES * MG_NINPUTS], rb[MG_MAX_ENTRIES * MG_NINPUTS];
    int use_gen = idx % 3 == 0 ? 1 + (int) (idx / 3 % 2) : 0; /* interp, or lazy gen at -O0/-O1: generator correctness is C01's business */
    MIR_module_t ma = NULL, mb = NULL;
    c4 = vp_more_ctx ();
    if (VP_TRY) { ma = mg_build (c4, gseed, idx * 8 + nmods - 1, gfeat, &info2); mg_exec_entries (c4, ma, &info2, ra, use_gen); VP_END; } TRY_OR ("exec-original-error", "executing the original module")
    c5 = vp_more_ctx ();
    static bs_t b4;
    if (VP_TRY) {
      /* single-module stream written by MIR_write_module_with_func from a fresh build */
      MIR_context_t c6 = vp_more_ctx ();
      MIR_module_t m6 = mg_build (c6, gseed, idx * 8 + nmods - 1, gfeat, &info2);
      write_all (c6, &b4, m6);
      b4.pos = 0; cur_r = &b4;
      MIR_read_with_func (c5, bs_reader);
      mb = DLIST_TAIL (MIR_module_t, *MIR_get_module_list (c5));
      mg_exec_entries (c5, mb, &info2, rb, use_gen);
      VP_END;
    } TRY_OR ("exec-reread-error", "reading/loading/linking/executing the re-read module")
    for (int k = 0; k < info2.n_entries * MG_NINPUTS; k++)
      if (ra[k] != rb[k]) { vp_viol ("exec-differs", "case=%ld entry %s input #%d: original %lld, re-read %lld (engine %s)", cur_case, info2.entry_name[k / MG_NINPUTS], k % MG_NINPUTS, (long long) ra[k], (long long) rb[k], use_gen ? "gen" : "interp"); goto out; }
    n_exec_ok++; if (use_gen) n_exec_gen++;
  }
out:
  alarm (0);
  vp_err_armed = 0;
  if (cur_case == 0 && t1) vp_sample ("binary stream of %zu bytes for module:\n%.3000s", b1.len, t1);
  free (t1); free (t2);
}

/* streams whose *uncompressed* length sits exactly on / next to a multiple of the 256K compression buffer */
static size_t uncompressed_len (const bs_t *b) {
  struct MIR_alloc al = {dm, dc, dr, df, NULL};
  dec_t da = {b->p, b->len, 0, NULL, 0, 0};
  reduce_decode (&al, dec_rd, dec_wr, &da);
  free (da.out);
  return da.olen;
}
static MIR_module_t edge_module (MIR_context_t ctx, size_t nel) {
  static uint8_t *z; if (!z) z = calloc (1, 1 << 21);
  MIR_module_t m = MIR_new_module (ctx, "edge");
  for (size_t i = 0; i < nel; i++) z[i] = (uint8_t) ((i * 7 + (i >> 5)) & 0x7f); /* one byte per element in the stream */
  MIR_new_data (ctx, "blob", MIR_T_U8, nel, z);
  MIR_finish_module (ctx);
  return m;
}
static long n_edge_exact;
static void edge_case (long idx) {
  static bs_t b;
  size_t target = (size_t) (1 + idx / 5) << 18; long delta = idx % 5 - 2;
  size_t want = target + delta, nel = want - 64, len = 0;
  for (int it = 0; it < 6; it++) { /* the stream length is nel + constant */
    MIR_context_t c = vp_new_ctx ();
    MIR_module_t m = edge_module (c, nel);
    write_all (c, &b, m);
    len = uncompressed_len (&b);
    if (len == want) break;
    nel = nel + want - len;
  }
  if (len != want) { vp_discard ("edge-length-not-reached"); return; }
  if (delta == 0) n_edge_exact++;
  MIR_context_t c1 = vp_new_ctx (), c2;
  MIR_module_t m = edge_module (c1, nel), r;
  mc_diff_t d;
  write_all (c1, &b, m);
  c2 = vp_more_ctx ();
  b.pos = 0; cur_r = &b;
  if (VP_TRY) { MIR_read_with_func (c2, bs_reader); VP_END; }
  else { vp_err_armed = 0; vp_viol (delta == 0 ? "read-error:payload-is-multiple-of-buffer" : "read-error:near-buffer-multiple", "case=%ld a valid stream of uncompressed length %zu (= %zu%+ld) written by MIR_write is rejected by MIR_read: %s", cur_case, len, target, delta, vp_err_msg); return; }
  r = DLIST_TAIL (MIR_module_t, *MIR_get_module_list (c2));
  if (!mc_module_equal (c1, m, c2, r, &d)) { vp_viol ("struct:edge", "case=%ld buffer-edge module differs after read: %s", cur_case, d.msg); return; }
  n_struct_ok++;
}

int main (int argc, char **argv) {
  vp_args_t a = vp_parse_args (argc, argv);
  gseed = a.seed; gfeat = (unsigned) strtoul (a.extra[0] ? a.extra : "0", 0, 0); cur_mode = a.mode;
  int dump = 0;
  for (int i = 1; i < argc; i++) if (!strcmp (argv[i], "--dump")) dump = 1;
  long done = 0;
  vp_watch_fp = !strcmp (a.mode, "text") ? "writer-or-scanner-hang" : "binary-io-hang";
  for (long c = a.start; c < a.start + a.count; c++) {
    cur_case = c;
    vp_case_begin (c);
    if (dump) { MIR_context_t cx = vp_new_ctx (); mg_info_t inf; MIR_module_t m = mg_build (cx, gseed, c, gfeat, &inf); MIR_output_module (cx, stdout, m); continue; }
    if (!strcmp (a.mode, "text")) text_case (c); else if (!strcmp (a.mode, "edge")) edge_case (c); else binary_case (c);
    done++;
  }
  printf ("EV cases %ld\nEV struct_equal %ld\nEV fixpoint_ok %ld\nEV exec_equal %ld\nEV exec_equal_gen %ld\nEV write_deterministic %ld\nEV multi_buffer_streams %ld\n", done, n_struct_ok, n_fix_ok, n_exec_ok, n_exec_gen, n_bytes_ok, n_large);
  printf ("EV buffer_edge_exact_streams %ld\nEV mixed_origin_streams_ok %ld\n", n_edge_exact, n_mixed_ok);
  printf ("MAX item_kinds_mask %llu\nMAX data_types_mask %llu\nMAX operand_kinds_mask %llu\nMAX distinct_string_bytes %d\n", (unsigned long long) all_item_kinds, (unsigned long long) all_data_types, (unsigned long long) all_op_kinds, max_str_bytes);
  return 0;
}
