"""C17: all memory goes through the user's allocators and is released at finish (ledger allocators + redirected libc symbols)."""
from vlib import build, common

RULE = ("one case = one error-free API history in contexts created by MIR_init2 (checking allocator, checking code allocator): nothing / "
        "generator init-finish twice / c2mir compile of a generated C program (-D options, second module) / a generated MIR text program "
        "(optionally written and read back in binary form into a second context, optionally printed), load, link with the interpreter, eager "
        "generation at -O0..-O3, lazy or lazy-BB generation, execution, then MIR_gen_finish, c2mir_finish, MIR_finish. Monitors: ledger of every "
        "malloc/calloc/realloc/free (realloc old_size == recorded size, no double/foreign free, tail canary, freed blocks poisoned and verified "
        "at the end, nothing live after finish), ledger of code regions (unmap with the mapped length, protect inside a region, stores outside a "
        "WRITE_EXEC window fault and are attributed, nothing mapped after finish), and every direct call of libc malloc/calloc/realloc/free/"
        "strdup/mmap/munmap/mprotect from library objects (objcopy --redefine-sym), reported with the calling function")


def run(tier):
    res = common.Result("C17")
    th = tier == "thorough"
    seed = common.seed()
    exe = build.build_harness("c17", ["c17_alloc.c"], "alloc", extra=("-DVP_REDIRECT", "-no-pie", "-rdynamic"))
    common.run_sharded(res, exe, ["--seed", seed], 25000 if th else 800, timeout=3000)
    # second build: the same ledger over real malloc blocks under ASan/UBSan, so reads after free and overruns are reported with stacks
    exe2 = build.build_harness("c17", ["c17_alloc.c"], "asan", extra=("-no-pie", "-rdynamic"))
    common.run_sharded(res, exe2, ["--seed", seed], 4000 if th else 250, env=common.ASAN_ENV, timeout=3000)
    return common.finish(
        res, tier, RULE,
        assumptions=["histories are error free: an error callback in a history is reported, not followed",
                     "memory that libc obtains inside libc (stdio buffers of fopen) is not the library's; only calls from library objects are redirected",
                     "programs that the reference model cannot bound in time are linked and generated but not executed"],
        evaluations=res.counters.get("malloc_calls", 0) + res.counters.get("calloc_calls", 0) + res.counters.get("realloc_calls", 0) + res.counters.get("free_calls", 0),
        floor={"histories": 300, "realloc_calls": 10000, "code_maps": 100, "write_windows_opened": 100, "c2mir_histories": 30, "binary_roundtrips": 30,
               "lazy_bb_links": 10, "lazy_links": 10, "interp_links": 30})


def replay(path):
    print(open(path).read())
    return 0
