/* C18: independent contexts used from different threads do not interfere.
   Built with -fsanitize=thread.  The main thread prepares a pool of generated programs (h/prog.h) with the observations the reference
   model predicts, and a pool of generated C sources; then N threads run, each looping over whole single-context workloads:
     MIR_init -> [c2mir_init, c2mir_compile] | MIR_scan_string -> [MIR_write / MIR_read through callbacks into a second context]
     -> load -> link (interp / gen -O0..-O3 / lazy / lazy BB) -> run entry on 3 inputs -> [MIR_output to a memory stream] -> finish calls.
   Every thread owns everything it touches (context, buffers, logs); the only things shared are the read-only program pool and the
   library itself.  Oracles: ThreadSanitizer (reports are collected by the driver) and equality of every thread's observations with
   the single-threaded prediction.  Barriers line the threads up in MIR_init / MIR_gen_init / c2mir_init in some rounds (where
   process-wide tables would be written) and in generated code in others; small random pauses are made between API calls only.  */
#define _GNU_SOURCE
#include <pthread.h>
#include <sched.h>
#include "vp.h"
#include "mir.h"
#include "mir-gen.h"
#include "c2mir/c2mir.h"
#include "sem.h"
#include "prog.h"

#define NPROG 40
#define NIN 3
static const int64_t inputs[NIN][2] = {{0, 0}, {1, -1}, {-987654321012LL, 255}};
typedef struct { int64_t res; uint8_t buf[PG_BUF], gdata[PG_BUF]; rm_log_t log[64]; int nlog; } obs_t;
typedef struct { char *text; int nf; uint8_t data_init[PG_BUF]; obs_t exp[NIN]; } pp_t;
static pp_t pool[NPROG]; static int npool;
static uint8_t buf_init[PG_BUF];
static char csrc[8][3000]; static long cexp[8][4];

typedef struct {
  int id; uint64_t seed; int iters;
  uint8_t mainbuf[PG_BUF + 64]; rm_log_t elog[80]; int nelog;
  char *wbuf; size_t wlen, wcap, wpos;
  long n_ctx, n_runs, n_c2mir, n_rw, n_out, n_link[7], n_mismatch, n_globreg; char first_bad[400];
} th_t;
static __thread th_t *me;
static pthread_barrier_t bar; static int nthreads;

static int64_t ext_log (int64_t tag, int64_t a, int64_t b) {
  th_t *t = me;
  if (t->nelog < 80) { t->elog[t->nelog].tag = tag; t->elog[t->nelog].a = a; t->elog[t->nelog].b = b; }
  t->nelog++;
  return (int64_t) ((uint64_t) a * 31u + ((uint64_t) b ^ (uint64_t) tag));
}
static int w_byte (MIR_context_t ctx, uint8_t b) { (void) ctx; th_t *t = me; if (t->wlen == t->wcap) { t->wcap = t->wcap ? t->wcap * 2 : 8192; t->wbuf = realloc (t->wbuf, t->wcap); } t->wbuf[t->wlen++] = (char) b; return 1; }
static int r_byte (MIR_context_t ctx) { (void) ctx; th_t *t = me; return t->wpos < t->wlen ? (uint8_t) t->wbuf[t->wpos++] : EOF; }
typedef struct { const char *s; size_t pos; } src_t;
static int src_getc (void *d) { src_t *s = d; return s->s[s->pos] ? (uint8_t) s->s[s->pos++] : EOF; }
static void err_func (MIR_error_type_t et, const char *fmt, ...) {
  char b[300]; va_list ap; va_start (ap, fmt); vsnprintf (b, sizeof b, fmt, ap); va_end (ap); (void) et;
  fprintf (stderr, "thread %d: unexpected MIR error: %s\n", me ? me->id : -1, b); abort ();
}
static void bad (th_t *t, const char *fmt, ...) {
  t->n_mismatch++;
  if (t->first_bad[0] == 0) { va_list ap; va_start (ap, fmt); vsnprintf (t->first_bad, sizeof t->first_bad, fmt, ap); va_end (ap); }
}
static void pause_a_bit (vp_rng_t *r) { int k = (int) vp_below (r, 8); if (k == 0) sched_yield (); else if (k == 1) usleep ((useconds_t) vp_below (r, 50)); }

static void one_workload (th_t *t, vp_rng_t *r, int it) {
  int lineup = it % 3 == 0; /* rounds in which all threads enter the init functions together */
  int kind = (int) vp_below (r, 100);
  if (lineup) pthread_barrier_wait (&bar);
  MIR_context_t ctx = MIR_init (); t->n_ctx++;
  MIR_set_error_func (ctx, err_func);
  pause_a_bit (r);
  if (kind < 22) { /* C source */
    int ci = (int) vp_below (r, 8);
    c2mir_init (ctx); t->n_c2mir++;
    struct c2mir_options ops; memset (&ops, 0, sizeof ops); ops.module_num = (size_t) it;
    src_t src = {csrc[ci], 0};
    if (!c2mir_compile (ctx, &ops, src_getc, &src, "gen.c", NULL)) { fprintf (stderr, "thread %d: c2mir rejected source %d that it accepted alone\n", t->id, ci); abort (); }
    pause_a_bit (r);
    for (MIR_module_t m = DLIST_HEAD (MIR_module_t, *MIR_get_module_list (ctx)); m != NULL; m = DLIST_NEXT (MIR_module_t, m)) MIR_load_module (ctx, m);
    int how = (int) vp_below (r, 4);
    if (lineup) pthread_barrier_wait (&bar);
    if (how > 0) { MIR_gen_init (ctx); MIR_gen_set_optimize_level (ctx, (unsigned) vp_below (r, 4)); }
    MIR_link (ctx, how == 0 ? MIR_set_interp_interface : how == 1 ? MIR_set_gen_interface : how == 2 ? MIR_set_lazy_gen_interface : MIR_set_lazy_bb_gen_interface, NULL);
    t->n_link[how == 0 ? 0 : how == 1 ? 1 : how == 2 ? 5 : 6]++;
    if (it % 3 == 1) pthread_barrier_wait (&bar);
    for (MIR_module_t m = DLIST_HEAD (MIR_module_t, *MIR_get_module_list (ctx)); m != NULL; m = DLIST_NEXT (MIR_module_t, m))
      for (MIR_item_t item = DLIST_HEAD (MIR_item_t, m->items); item != NULL; item = DLIST_NEXT (MIR_item_t, item))
        if (item->item_type == MIR_func_item && !strcmp (item->u.func->name, "entry")) {
          long (*f) (long, long) = item->addr;
          static const long ab[4][2] = {{3, 1}, {-7, 2}, {100, 0}, {5, 3}};
          for (int k = 0; k < 4; k++) { long v = f (ab[k][0], ab[k][1]); t->n_runs++; if (v != cexp[ci][k]) bad (t, "C source %d: entry (%ld, %ld) = %ld, alone it is %ld", ci, ab[k][0], ab[k][1], v, cexp[ci][k]); }
        }
    if (how > 0) MIR_gen_finish (ctx);
    c2mir_finish (ctx); MIR_finish (ctx);
    return;
  }
  if (kind < 30) { /* interpreted code keeping a running sum in a global variable tied to a hard register */
    static const char *gprog = "m: module\nexport acc\nacc: func i64, i64:base, i64:n\n local i64:i, i64:t\n global i64:g:rbx\n mov g, base\n mov i, 0\nloop:\n bge fin, i, n\n mov t, g\n add t, t, i\n mov g, t\n add i, i, 1\n jmp loop\nfin:\n mov t, g\n ret t\n endfunc\nendmodule\n";
    MIR_scan_string (ctx, gprog);
    MIR_module_t m = DLIST_HEAD (MIR_module_t, *MIR_get_module_list (ctx)); MIR_load_module (ctx, m);
    MIR_link (ctx, MIR_set_interp_interface, NULL); t->n_link[0]++;
    MIR_item_t acc = NULL;
    for (MIR_item_t item = DLIST_HEAD (MIR_item_t, m->items); item != NULL; item = DLIST_NEXT (MIR_item_t, item)) if (item->item_type == MIR_func_item) acc = item;
    if (it % 3 == 1) pthread_barrier_wait (&bar);
    int64_t base = (int64_t) t->id * 1000003 + it, n = 3000 + (int64_t) vp_below (r, 3000);
    MIR_val_t rv, v[2]; v[0].i = base; v[1].i = n; MIR_interp_arr (ctx, acc, &rv, 2, v); t->n_runs++; t->n_globreg++;
    if (rv.i != base + n * (n - 1) / 2) bad (t, "hard-register global accumulator: acc (%lld, %lld) = %lld, alone it is %lld", (long long) base, (long long) n, (long long) rv.i, (long long) (base + n * (n - 1) / 2));
    if (lineup) pthread_barrier_wait (&bar); /* the round's second line-up, kept so that every thread passes the same barriers */
    MIR_finish (ctx);
    return;
  }
  const pp_t *p = &pool[vp_below (r, (uint64_t) npool)];
  MIR_scan_string (ctx, p->text);
  pause_a_bit (r);
  if (vp_chance (r, 30)) { /* binary form into a fresh context */
    t->wlen = t->wpos = 0; MIR_write_with_func (ctx, w_byte); MIR_finish (ctx);
    ctx = MIR_init (); t->n_ctx++; MIR_set_error_func (ctx, err_func);
    MIR_read_with_func (ctx, r_byte); t->n_rw++;
  }
  if (vp_chance (r, 25)) { char *ob = NULL; size_t ol = 0; FILE *f = open_memstream (&ob, &ol); MIR_output (ctx, f); fclose (f); free (ob); t->n_out++; }
  for (MIR_module_t m = DLIST_HEAD (MIR_module_t, *MIR_get_module_list (ctx)); m != NULL; m = DLIST_NEXT (MIR_module_t, m)) MIR_load_module (ctx, m);
  MIR_load_external (ctx, "ext_log", ext_log);
  int how = (int) vp_below (r, 7); /* 0 interp, 1..4 gen -O0..-O3, 5 lazy, 6 lazy bb */
  if (lineup) pthread_barrier_wait (&bar);
  if (how > 0) { MIR_gen_init (ctx); MIR_gen_set_optimize_level (ctx, how <= 4 ? (unsigned) (how - 1) : (unsigned) vp_below (r, 3)); }
  pause_a_bit (r);
  MIR_link (ctx, how == 0 ? MIR_set_interp_interface : how <= 4 ? MIR_set_gen_interface : how == 5 ? MIR_set_lazy_gen_interface : MIR_set_lazy_bb_gen_interface, NULL);
  t->n_link[how]++;
  char en[16]; snprintf (en, sizeof en, "fn%d", p->nf - 1);
  MIR_item_t entry = NULL, gd = NULL;
  for (MIR_module_t m = DLIST_HEAD (MIR_module_t, *MIR_get_module_list (ctx)); m != NULL; m = DLIST_NEXT (MIR_module_t, m))
    for (MIR_item_t item = DLIST_HEAD (MIR_item_t, m->items); item != NULL; item = DLIST_NEXT (MIR_item_t, item)) {
      if (item->item_type == MIR_func_item && !strcmp (item->u.func->name, en)) entry = item;
      if (item->item_type == MIR_data_item && item->u.data->name != NULL && !strcmp (item->u.data->name, "gdata")) gd = item;
    }
  if (it % 3 == 1) pthread_barrier_wait (&bar); /* rounds in which all threads run (and lazily generate) code together */
  for (int in = 0; in < NIN; in++) {
    int64_t got;
    memcpy (t->mainbuf, buf_init, PG_BUF); memcpy (gd->addr, p->data_init, PG_BUF); t->nelog = 0;
    if (how == 0 && (in & 1)) { MIR_val_t rv, v[3]; v[0].a = t->mainbuf; v[1].i = inputs[in][0]; v[2].i = inputs[in][1]; MIR_interp_arr (ctx, entry, &rv, 3, v); got = rv.i; }
    else got = ((int64_t (*) (void *, int64_t, int64_t)) entry->addr) (t->mainbuf, inputs[in][0], inputs[in][1]);
    t->n_runs++;
    const obs_t *x = &p->exp[in];
    if (got != x->res) bad (t, "program %d interface %d input %d: result %lld, alone it is %lld", (int) (p - pool), how, in, (long long) got, (long long) x->res);
    else if (memcmp (t->mainbuf, x->buf, PG_BUF) != 0) bad (t, "program %d interface %d input %d: buffer differs", (int) (p - pool), how, in);
    else if (memcmp (gd->addr, x->gdata, PG_BUF) != 0) bad (t, "program %d interface %d input %d: module data differs", (int) (p - pool), how, in);
    else if (t->nelog != x->nlog || memcmp (t->elog, x->log, sizeof (rm_log_t) * (size_t) (x->nlog < 64 ? x->nlog : 64)) != 0) bad (t, "program %d interface %d input %d: external calls differ", (int) (p - pool), how, in);
    pause_a_bit (r);
  }
  if (how > 0) MIR_gen_finish (ctx);
  MIR_finish (ctx);
}

static void *thread_main (void *arg) {
  th_t *t = arg; me = t;
  vp_rng_t r = vp_case_rng (t->seed, 0xc018, (uint64_t) t->id);
  for (int it = 0; it < t->iters; it++) one_workload (t, &r, it);
  return NULL;
}

static void gen_c_program (vp_rng_t *r, char *out, size_t n) {
  int k1 = (int) vp_range (r, 2, 99), k2 = (int) vp_range (r, 1, 9), nn = (int) vp_range (r, 2, 9);
  snprintf (out, n,
            "#define K1 %d\n#define MIX(x,y) ((x)*K1 + ((y) ^ 0x55))\n#if K1 > 50\n#define SH 3\n#else\n#define SH 1\n#endif\n"
            "struct s { int a; long b; char c[%d]; };\ntypedef struct s s_t;\nenum e { E0, E1 = %d, E2 };\n"
            "static long helper (s_t *p, long x) { long r = 0; for (int i = 0; i < %d; i++) r += p->c[i] * (i + x); return r + p->a + E2; }\n"
            "static double fd (double x, int n) { double s = 0; while (n-- > 0) s += x / (n + 1); return s; }\n"
            "long entry (long a, long b) { s_t v; long tab[%d]; long r = MIX (a, b) << SH; v.a = %d; v.b = a; for (int i = 0; i < %d; i++) { v.c[i] = (char) (i + b); tab[i] = i * a; }\n"
            "  switch (b & 3) { case 0: r += helper (&v, a); break; case 1: r -= (long) fd (1.5, %d); break; case 2: r ^= tab[%d]; break; default: r = r * %d + sizeof (s_t); }\n"
            "  return r; }\n",
            k1, nn, k2, nn, nn, k2 * 7, nn, nn, nn - 1, k2);
}

int main (int argc, char **argv) {
  vp_args_t a = vp_parse_args (argc, argv);
  nthreads = 8; int iters = 30;
  for (int i = 1; i < argc; i++) { if (!strcmp (argv[i], "--threads")) nthreads = atoi (argv[++i]); else if (!strcmp (argv[i], "--iters")) iters = atoi (argv[++i]); }
  vp_rng_t r0 = vp_case_rng (a.seed, 0xc018aa, 0);
  for (int i = 0; i < PG_BUF; i++) buf_init[i] = (uint8_t) vp_next (&r0);
  /* ---- program pool with single-threaded predictions (reference model) */
  static prog_t prog; static rm_log_t rlog[RM_MAXLOG];
  for (long idx = 0; npool < NPROG && idx < 4000; idx++) {
    pg_gen_prog (&prog, a.seed, idx, PF_NO_LREF | PF_NO_JMPI, 3);
    pp_t *p = &pool[npool]; int ok = 1;
    for (int in = 0; in < NIN && ok; in++) {
      rm_t rm; memset (&rm, 0, sizeof rm); obs_t *x = &p->exp[in];
      memcpy (x->buf, buf_init, PG_BUF); memcpy (x->gdata, prog.data_init, PG_BUF);
      rm.p = &prog; rm.buf = x->buf; rm.gdata = x->gdata; rm.log = rlog;
      int64_t ia[PG_MAXARGS] = {0, inputs[in][0], inputs[in][1]}; double da[PG_MAXARGS] = {0}; uint8_t *pa[PG_MAXARGS] = {x->buf}; int64_t ri = 0; double rd = 0;
      rm_call (&rm, prog.nf - 1, ia, da, pa, &ri, &rd, 0);
      if (rm.overflow || rm_oob || rm.nlog > 64 || rm.steps > 200000) { ok = 0; rm_oob = 0; break; }
      x->res = ri; x->nlog = rm.nlog; memcpy (x->log, rlog, sizeof (rm_log_t) * (size_t) rm.nlog);
    }
    if (!ok || prog.n_nodes < 10) continue;
    p->text = pg_print (NULL, &prog); p->nf = prog.nf; memcpy (p->data_init, prog.data_init, PG_BUF); npool++;
  }
  /* ---- C sources and what their entry returns alone (interpreted, single thread) */
  for (int ci = 0; ci < 8; ci++) {
    gen_c_program (&r0, csrc[ci], sizeof csrc[ci]);
    MIR_context_t ctx = MIR_init (); c2mir_init (ctx);
    struct c2mir_options ops; memset (&ops, 0, sizeof ops); src_t src = {csrc[ci], 0};
    if (!c2mir_compile (ctx, &ops, src_getc, &src, "gen.c", NULL)) { fprintf (stderr, "harness: C source rejected\n%s\n", csrc[ci]); return 2; }
    for (MIR_module_t m = DLIST_HEAD (MIR_module_t, *MIR_get_module_list (ctx)); m != NULL; m = DLIST_NEXT (MIR_module_t, m)) MIR_load_module (ctx, m);
    MIR_link (ctx, MIR_set_interp_interface, NULL);
    static const long ab[4][2] = {{3, 1}, {-7, 2}, {100, 0}, {5, 3}};
    for (MIR_module_t m = DLIST_HEAD (MIR_module_t, *MIR_get_module_list (ctx)); m != NULL; m = DLIST_NEXT (MIR_module_t, m))
      for (MIR_item_t item = DLIST_HEAD (MIR_item_t, m->items); item != NULL; item = DLIST_NEXT (MIR_item_t, item))
        if (item->item_type == MIR_func_item && !strcmp (item->u.func->name, "entry")) for (int k = 0; k < 4; k++) cexp[ci][k] = ((long (*) (long, long)) item->addr) (ab[k][0], ab[k][1]);
    c2mir_finish (ctx); MIR_finish (ctx);
  }
  /* ---- threads */
  pthread_barrier_init (&bar, NULL, (unsigned) nthreads);
  th_t *ts = calloc ((size_t) nthreads, sizeof (th_t)); pthread_t *tid = calloc ((size_t) nthreads, sizeof (pthread_t));
  for (int i = 0; i < nthreads; i++) { ts[i].id = i; ts[i].seed = a.seed; ts[i].iters = iters; pthread_create (&tid[i], NULL, thread_main, &ts[i]); }
  long n_ctx = 0, n_runs = 0, n_c2 = 0, n_rw = 0, n_out = 0, n_bad = 0, n_gr = 0, link[7] = {0};
  for (int i = 0; i < nthreads; i++) {
    pthread_join (tid[i], NULL);
    n_ctx += ts[i].n_ctx; n_runs += ts[i].n_runs; n_c2 += ts[i].n_c2mir; n_rw += ts[i].n_rw; n_out += ts[i].n_out; n_bad += ts[i].n_mismatch; n_gr += ts[i].n_globreg;
    for (int k = 0; k < 7; k++) link[k] += ts[i].n_link[k];
    if (ts[i].n_mismatch) vp_viol ("thread-result-differs-from-single-threaded-run", "thread %d (%ld mismatches), first: %s", i, ts[i].n_mismatch, ts[i].first_bad);
    vp_dist (vp_hash_mix ((uint64_t) i, (uint64_t) ts[i].n_runs * 31 + (uint64_t) ts[i].n_link[0]));
  }
  vp_sample ("%d threads x %d workloads over a pool of %d programs and 8 C sources; barriers in rounds 0 (init functions) and 1 (execution) of every 3", nthreads, iters, npool);
  printf ("EV threads %d\nEV workloads %ld\nEV contexts %ld\nEV entry_runs %ld\nEV c2mir_workloads %ld\nEV binary_roundtrips %ld\nEV outputs %ld\nEV interp_links %ld\nEV gen_O0 %ld\nEV gen_O1 %ld\nEV gen_O2 %ld\nEV gen_O3 %ld\nEV lazy_links %ld\nEV lazy_bb_links %ld\nEV hard_reg_global_workloads %ld\nEV pool_programs %d\n",
          nthreads, (long) nthreads * iters, n_ctx, n_runs, n_c2, n_rw, n_out, link[0], link[1], link[2], link[3], link[4], link[5], link[6], n_gr, npool);
  return 0;
}
