/* C01 / C03 / C04: generated programs (h/prog.h) executed by the engines of the library and compared with the reference
   model, which executes the program *as written* (every call a real call, narrowing at calls/returns as documented).
   --mode c01 : one module; engines MIR_interp, gen -O0..-O3 (eager)
   --mode c03 : 1-3 modules; engines MIR_interp, interpreter C interface, gen, lazy gen, lazy BB gen (levels 0 and 2), several
                entry calls in random order, item->addr must stay valid and unchanged
   --mode c04 : one/two modules biased to what link-time simplification and inlining touch; engines MIR_interp, gen -O0, gen -O2
                (the python driver runs this mode on the default, never-inline and always-inline library builds)
   --extra FEATMASK : generator feature mask (PF_*) */
#include "vp_mir.h"
#include "prog.h"

static long cur_case;
static uint64_t gseed;
static unsigned gfeat;
static const char *gmode;

/* ---- the harness side of the world: guarded main buffer, logging external */
static uint8_t *mainbuf;      /* PG_BUF bytes flush against a PROT_NONE page */
static void mainbuf_init (void) {
  long pg = sysconf (_SC_PAGESIZE);
  uint8_t *m = mmap (NULL, 3 * pg, PROT_READ | PROT_WRITE, MAP_PRIVATE | MAP_ANONYMOUS, -1, 0);
  mprotect (m, pg, PROT_NONE); mprotect (m + 2 * pg, pg, PROT_NONE);
  mainbuf = m + 2 * pg - PG_BUF;
}
static rm_log_t elog[RM_MAXLOG]; static int nelog;
static int64_t ext_log (int64_t tag, int64_t a, int64_t b) {
  if (nelog < RM_MAXLOG) { elog[nelog].tag = tag; elog[nelog].a = a; elog[nelog].b = b; }
  nelog++;
  return (int64_t) ((uint64_t) a * 31u + ((uint64_t) b ^ (uint64_t) tag));
}

#define NIN 6
static const int64_t inputs[NIN][2] = {{0, 0}, {1, -1}, {0x7fffffffffffffffLL, 3}, {-987654321012LL, 255}, {0x80000000LL, 65537}, {42, (-9223372036854775807LL - 1)}};

typedef struct { int64_t res; uint8_t buf[PG_BUF], gdata[PG_BUF]; rm_log_t log[64]; int nlog; } obs_t;
static obs_t expect[NIN];
static uint8_t buf_init[PG_BUF];

static long n_prog, n_engine_runs, n_discard_steps, n_calls_total, n_inline_total, n_loops_total, n_irred_total, n_switch_total, n_alloca_total, n_ovf_total, n_fp_total, n_narrow_total, n_multiret_total, n_multi_module;

static MIR_item_t find_item (MIR_context_t ctx, const char *name) {
  for (MIR_module_t m = DLIST_HEAD (MIR_module_t, *MIR_get_module_list (ctx)); m != NULL; m = DLIST_NEXT (MIR_module_t, m))
    for (MIR_item_t it = DLIST_HEAD (MIR_item_t, m->items); it != NULL; it = DLIST_NEXT (MIR_item_t, it))
      if ((it->item_type == MIR_func_item || it->item_type == MIR_data_item) && MIR_item_name (ctx, it) != NULL && strcmp (MIR_item_name (ctx, it), name) == 0) return it;
  return NULL;
}

enum { E_INTERP, E_INTERP_C, E_GEN0, E_GEN1, E_GEN2, E_GEN3, E_LAZY0, E_LAZY2, E_BB0, E_BB2, NENG };
static const char *ename[NENG] = {"MIR_interp", "interp-C-interface", "gen-O0", "gen-O1", "gen-O2", "gen-O3", "lazy-gen-O0", "lazy-gen-O2", "lazy-bb-gen-O0", "lazy-bb-gen-O2"};
static const char *eclass (int e) { return e <= E_INTERP_C ? "interp" : e <= E_GEN1 ? "gen-O01" : e <= E_GEN3 ? "gen-O23" : e <= E_LAZY2 ? "lazy" : "lazy-bb"; }

static char *ptext;
static const prog_t *cur_prog;

static void report (int e, int in, const char *kind, const char *detail) {
  char fp[96];
  snprintf (fp, sizeof fp, "%s-differs:%s:%s", kind, gmode, eclass (e));
  vp_viol (fp, "case=%ld engine %s, input #%d (a=%lld b=%lld): %s\nprogram (seed %llu, feat %u):\n%.9000s", cur_case, ename[e], in, (long long) inputs[in][0], (long long) inputs[in][1], detail,
           (unsigned long long) gseed, gfeat, ptext);
}

/* Fill the stack area the next call will use with a pattern: a frame slot that generated code reads without having written it (a lost
   spill store) must not find the right value left there by the previous engine's run of the same program. */
static void __attribute__ ((noinline)) dirty_stack (int pat) {
  volatile unsigned char area[48 * 1024];
  memset ((void *) area, pat, sizeof area);
  __asm__ volatile ("" : : "r"(area) : "memory");
}

/* run the program on engine e for all inputs (order given), compare with the reference observations */
static int run_engine (int e, const int *order, int norder) {
  MIR_context_t ctx = vp_new_ctx ();
  MIR_item_t entry = NULL, gd = NULL;
  char en[16]; snprintf (en, sizeof en, "fn%d", cur_prog->nf - 1);
  int level = e == E_GEN1 ? 1 : (e == E_GEN2 || e == E_LAZY2 || e == E_BB2) ? 2 : e == E_GEN3 ? 3 : 0;
  vp_watch (cur_case, ename[e], 120);
  if (VP_TRY) {
    MIR_scan_string (ctx, ptext);
    for (MIR_module_t m = DLIST_HEAD (MIR_module_t, *MIR_get_module_list (ctx)); m != NULL; m = DLIST_NEXT (MIR_module_t, m)) MIR_load_module (ctx, m);
    MIR_load_external (ctx, "ext_log", ext_log);
    if (e >= E_GEN0) { MIR_gen_init (ctx); MIR_gen_set_optimize_level (ctx, (unsigned) level); }
    MIR_link (ctx, e <= E_INTERP_C ? MIR_set_interp_interface : e <= E_GEN3 ? MIR_set_gen_interface : e <= E_LAZY2 ? MIR_set_lazy_gen_interface : MIR_set_lazy_bb_gen_interface, NULL);
    entry = find_item (ctx, en); gd = find_item (ctx, "gdata");
    VP_END;
  } else {
    vp_err_armed = 0; alarm (0);
    char fp[96]; snprintf (fp, sizeof fp, "link-error:%s:%s", gmode, eclass (e));
    vp_viol (fp, "case=%ld scanning/loading/linking for %s raised %s (%s)\nprogram:\n%.9000s", cur_case, ename[e], vp_err_name (vp_err_type), vp_err_msg, ptext);
    return 0;
  }
  if (entry == NULL || gd == NULL) { vp_viol ("harness-entry-missing", "case=%ld entry/gdata not found", cur_case); alarm (0); return 0; }
  void *addr0 = entry->addr;
  int ok = 1;
  for (int oi = 0; oi < norder && ok; oi++) {
    int in = order[oi];
    int64_t got = 0;
    memcpy (mainbuf, buf_init, PG_BUF); memcpy (gd->addr, cur_prog->data_init, PG_BUF); nelog = 0;
    dirty_stack (0xa5 ^ (e * 16 + oi));
    if (VP_TRY) {
      if (e == E_INTERP) { MIR_val_t r, v[3]; v[0].a = mainbuf; v[1].i = inputs[in][0]; v[2].i = inputs[in][1]; MIR_interp_arr (ctx, entry, &r, 3, v); got = r.i; }
      else got = ((int64_t (*) (void *, int64_t, int64_t)) entry->addr) (mainbuf, inputs[in][0], inputs[in][1]);
      VP_END;
    } else { vp_err_armed = 0; char d[256]; snprintf (d, sizeof d, "execution raised %s (%s)", vp_err_name (vp_err_type), vp_err_msg); report (e, in, "run-error", d); ok = 0; break; }
    n_engine_runs++;
    const obs_t *x = &expect[in];
    char d[512];
    if (got != x->res) { snprintf (d, sizeof d, "result %lld, reference model %lld", (long long) got, (long long) x->res); report (e, in, "result", d); ok = 0; break; }
    if (memcmp (mainbuf, x->buf, PG_BUF) != 0) { int k = 0; while (mainbuf[k] == x->buf[k]) k++; snprintf (d, sizeof d, "buffer byte %d is %02x, reference model %02x", k, mainbuf[k], x->buf[k]); report (e, in, "memory", d); ok = 0; break; }
    if (memcmp (gd->addr, x->gdata, PG_BUF) != 0) { int k = 0; while (((uint8_t *) gd->addr)[k] == x->gdata[k]) k++; snprintf (d, sizeof d, "module data byte %d is %02x, reference model %02x", k, ((uint8_t *) gd->addr)[k], x->gdata[k]); report (e, in, "data", d); ok = 0; break; }
    if (nelog != x->nlog) { snprintf (d, sizeof d, "%d external calls, reference model %d", nelog, x->nlog); report (e, in, "extcalls", d); ok = 0; break; }
    for (int k = 0; k < nelog && k < 64; k++)
      if (elog[k].tag != x->log[k].tag || elog[k].a != x->log[k].a || elog[k].b != x->log[k].b) {
        snprintf (d, sizeof d, "external call #%d is (%lld,%lld,%lld), reference model (%lld,%lld,%lld)", k, (long long) elog[k].tag, (long long) elog[k].a, (long long) elog[k].b, (long long) x->log[k].tag, (long long) x->log[k].a, (long long) x->log[k].b);
        report (e, in, "extcalls", d); ok = 0; break; }
    if (ok && entry->addr != addr0) { report (e, in, "public-address", "item->addr of the entry changed after a call"); ok = 0; }
  }
  alarm (0);
  if (VP_TRY) { if (e >= E_GEN0) MIR_gen_finish (ctx); MIR_finish (ctx); VP_END; }
  vp_err_armed = 0;
  return ok;
}

static void run_case (long idx) {
  static prog_t prog;
  vp_rng_t r = vp_case_rng (gseed, 0xc001, (uint64_t) idx);
  int c03 = !strcmp (gmode, "c03"), c04 = !strcmp (gmode, "c04");
  pg_gen_prog (&prog, gseed, idx, gfeat, c03 ? 3 : c04 ? 2 : 1);
  cur_prog = &prog;
  { MIR_context_t c0 = vp_new_ctx (); free (ptext); ptext = pg_print (c0, &prog); }
  for (int i = 0; i < PG_BUF; i++) buf_init[i] = (uint8_t) vp_next (&r);
  /* ---- reference model */
  static rm_log_t rlog[RM_MAXLOG];
  for (int in = 0; in < NIN; in++) {
    rm_t rm; memset (&rm, 0, sizeof rm);
    obs_t *x = &expect[in];
    memcpy (x->buf, buf_init, PG_BUF); memcpy (x->gdata, prog.data_init, PG_BUF);
    rm.p = &prog; rm.buf = x->buf; rm.gdata = x->gdata; rm.log = rlog;
    int64_t ia[PG_MAXARGS] = {0, inputs[in][0], inputs[in][1]}; double da[PG_MAXARGS] = {0}; uint8_t *pa[PG_MAXARGS] = {x->buf};
    int64_t ri = 0; double rd = 0;
    rm_call (&rm, prog.nf - 1, ia, da, pa, &ri, &rd, 0);
    if (rm_oob) { rm_oob = 0; vp_viol ("harness-generated-out-of-range-access", "case=%ld the generated program touches memory outside a region\nprogram:\n%.9000s", cur_case, ptext); return; }
    if (rm.overflow || rm.nlog > 64) { vp_discard (rm.overflow ? "rm-step-bound" : "too-many-extcalls"); n_discard_steps++; return; }
    x->res = ri; x->nlog = rm.nlog; memcpy (x->log, rlog, sizeof (rm_log_t) * (size_t) rm.nlog);
  }
  n_prog++;
  n_calls_total += prog.n_calls; n_inline_total += prog.n_inline_calls; n_loops_total += prog.n_loops; n_irred_total += prog.n_irred; n_switch_total += prog.n_switch;
  n_alloca_total += prog.n_alloca; n_ovf_total += prog.n_ovf; n_fp_total += prog.n_fp; n_narrow_total += prog.n_narrow; n_multiret_total += prog.n_multi_ret; n_multi_module += prog.nmodules > 1;
  if (prog.n_nodes >= 12 && (prog.n_loops || prog.n_calls)) vp_dist (prog.shape);
  /* ---- engines */
  int order[2 * NIN], no = 0;
  for (int i = 0; i < NIN; i++) order[no++] = i;
  if (c03) { for (int i = NIN - 1; i > 0; i--) { int j = (int) vp_below (&r, (uint64_t) i + 1), t = order[i]; order[i] = order[j]; order[j] = t; } for (int i = 0; i < 3; i++) order[no++] = (int) vp_below (&r, NIN); }
  static const int e01[] = {E_INTERP, E_GEN0, E_GEN1, E_GEN2, E_GEN3};
  static const int e03[] = {E_INTERP, E_INTERP_C, E_GEN0, E_GEN2, E_LAZY0, E_LAZY2, E_BB0, E_BB2};
  static const int e04[] = {E_INTERP, E_GEN0, E_GEN2};
  const int *es = c03 ? e03 : c04 ? e04 : e01; int ne = c03 ? 8 : c04 ? 3 : 5;
  for (int k = 0; k < ne; k++) run_engine (es[k], order, no);
}

int main (int argc, char **argv) {
  vp_args_t a = vp_parse_args (argc, argv);
  gseed = a.seed; gmode = a.mode[0] ? a.mode : "c01"; gfeat = (unsigned) strtoul (a.extra[0] ? a.extra : "0", 0, 0);
  if (!strcmp (gmode, "c04")) gfeat |= PF_INLINE_BIAS;
  mainbuf_init ();
  vp_watch_fp = "engine-hang";
  int dump = 0; for (int i = 1; i < argc; i++) if (!strcmp (argv[i], "--dump")) dump = 1;
  long done = 0;
  for (long c = a.start; c < a.start + a.count; c++) {
    cur_case = c; vp_case_begin (c);
    if (dump) { static prog_t pr; pg_gen_prog (&pr, gseed, c, gfeat, !strcmp (gmode, "c03") ? 3 : !strcmp (gmode, "c04") ? 2 : 1); MIR_context_t c0 = vp_new_ctx (); puts (pg_print (c0, &pr)); continue; }
    run_case (c); done++;
  }
  if (a.start == 0 && ptext) vp_sample ("%.5000s", ptext);
  printf ("EV cases %ld\nEV programs %ld\nEV engine_runs %ld\nEV calls %ld\nEV inline_calls %ld\nEV loops %ld\nEV irreducible_loops %ld\nEV switches %ld\nEV allocas %ld\nEV overflow_branches %ld\nEV fp_stmts %ld\nEV narrow_types %ld\nEV early_returns %ld\nEV multi_module_programs %ld\n",
          done, n_prog, n_engine_runs, n_calls_total, n_inline_total, n_loops_total, n_irred_total, n_switch_total, n_alloca_total, n_ovf_total, n_fp_total, n_narrow_total, n_multiret_total, n_multi_module);
  return 0;
}
