#!/bin/sh
# usage: tools/try_mutant.sh <patch.diff> <ID> [tier]   -- apply to /repo, run the check, always undo
P="$1"; ID="$2"; TIER="${3:-quick}"
cd /verif
git -C /repo diff --quiet || { echo "/repo dirty, refusing"; exit 9; }
git -C /repo apply "$(realpath "$P")" || { echo "patch does not apply"; exit 9; }
./run "$ID" --tier "$TIER" > /tmp/try_mutant.out 2>&1; rc=$?
git -C /repo checkout -- .
grep -E "^(VIOLATION|KNOWN|INCONCLUSIVE|  fingerprint|C[0-9]+ )" /tmp/try_mutant.out | cut -c1-220 | head -20
echo "rc=$rc"
exit $rc
