/* C15: ill-formed IR is rejected through the error callback with a specific code; well-formed IR is accepted.
   The acceptance table below is transcribed from MIR.md (DESIGN.md appendix A); it does not look at insn_descs.
   Sweeps (mode):
     single   every fixed-arity opcode x operand position x operand kind, other positions valid   (exhaustive)
     pairs    two positions varied at once (thorough)
     arity    every opcode value (incl. out of range) x operand counts 0..6
     special  ret / call / switch / overflow-branch / declaration / vararg rules (enumerated list)
*/
#include "vp_mir.h"

#include "optable.h"

/* ------------------------------------------------------------------ building one function */
typedef struct {
  MIR_context_t ctx;
  MIR_item_t func, proto, import, data, other_func;
  MIR_reg_t ri, ri2, rf, rd, rld;
  MIR_label_t lab;
} env_t;

static MIR_op_t make_op (env_t *e, int k) {
  MIR_context_t ctx = e->ctx;
  static const MIR_type_t mt[] = {MIR_T_I8, MIR_T_U8, MIR_T_I16, MIR_T_U16, MIR_T_I32, MIR_T_U32, MIR_T_I64, MIR_T_U64, MIR_T_P, MIR_T_F, MIR_T_D, MIR_T_LD,
                                  MIR_T_BLK, MIR_T_BLK + 1, MIR_T_BLK + 2, MIR_T_BLK + 3, MIR_T_BLK + 4, MIR_T_RBLK, MIR_T_UNDEF};
  switch (k) {
  case K_Ri: return MIR_new_reg_op (ctx, e->ri);
  case K_Rf: return MIR_new_reg_op (ctx, e->rf);
  case K_Rd: return MIR_new_reg_op (ctx, e->rd);
  case K_Rld: return MIR_new_reg_op (ctx, e->rld);
  case K_Ii: return MIR_new_int_op (ctx, 3);
  case K_Iu: return MIR_new_uint_op (ctx, 3);
  case K_If: return MIR_new_float_op (ctx, 1.5f);
  case K_Id: return MIR_new_double_op (ctx, 1.5);
  case K_Ild: return MIR_new_ldouble_op (ctx, 1.5L);
  case K_L: return MIR_new_label_op (ctx, e->lab);
  case K_REFfunc: return MIR_new_ref_op (ctx, e->other_func);
  case K_REFproto: return MIR_new_ref_op (ctx, e->proto);
  case K_REFdata: return MIR_new_ref_op (ctx, e->data);
  case K_REFimport: return MIR_new_ref_op (ctx, e->import);
  case K_STR: return MIR_new_str_op (ctx, (MIR_str_t){4, "abc"});
  case K_Mi64_idx: return MIR_new_mem_op (ctx, MIR_T_I64, 16, e->ri, e->ri2, 8);
  case K_Md_idx: return MIR_new_mem_op (ctx, MIR_T_D, -8, e->ri, e->ri2, 4);
  case K_Mi64_fbase: return MIR_new_mem_op (ctx, MIR_T_I64, 0, e->rd, 0, 1);
  case K_Mi64_findex: return MIR_new_mem_op (ctx, MIR_T_I64, 0, e->ri, e->rf, 2);
  case K_Rundecl: return MIR_new_reg_op (ctx, 1000);
  case K_Mi64_undeclbase: return MIR_new_mem_op (ctx, MIR_T_I64, 0, 1000, 0, 1);
  default:
    if (K_Mi8 <= k && k <= K_Mundef) return MIR_new_mem_op (ctx, mt[k - K_Mi8], 8, e->ri, 0, 1);
    abort ();
  }
}

static void env_open (env_t *e, int vararg, int nres, MIR_type_t *res) {
  MIR_context_t ctx = e->ctx = vp_new_ctx ();
  MIR_type_t i64 = MIR_T_I64;
  MIR_var_t arg = {MIR_T_I64, "a", 0};
  int64_t dv = 7;
  MIR_new_module (ctx, "m");
  e->proto = MIR_new_proto_arr (ctx, "p", 1, &i64, 1, &arg);
  e->import = MIR_new_import (ctx, "ext");
  e->data = MIR_new_data (ctx, "dat", MIR_T_I64, 1, &dv);
  e->other_func = MIR_new_func_arr (ctx, "g", 0, NULL, 0, NULL);
  MIR_finish_func (ctx);
  e->func = vararg ? MIR_new_vararg_func_arr (ctx, "f", nres, res, 1, &arg) : MIR_new_func_arr (ctx, "f", nres, res, 1, &arg);
  e->ri = MIR_new_func_reg (ctx, e->func->u.func, MIR_T_I64, "ri");
  e->ri2 = MIR_new_func_reg (ctx, e->func->u.func, MIR_T_I64, "ri2");
  e->rf = MIR_new_func_reg (ctx, e->func->u.func, MIR_T_F, "rf");
  e->rd = MIR_new_func_reg (ctx, e->func->u.func, MIR_T_D, "rd");
  e->rld = MIR_new_func_reg (ctx, e->func->u.func, MIR_T_LD, "rld");
  e->lab = MIR_new_label (ctx);
  MIR_append_insn (ctx, e->func, e->lab);
}

static long cur_case;
static long n_acc_ok, n_rej_ok, n_unspec, n_unspec_acc, n_unspec_rej;
static long err_hist[64];

/* returns 0 accepted, 1 rejected (vp_err_type valid) */
static int run_insn (const opdesc_t *d, int kinds[4], int nops_override) {
  env_t e;
  int rejected = 0;
  if (VP_TRY) {
    env_open (&e, (d->flags & F_VARARG) != 0, 0, NULL);
    MIR_op_t o[8];
    int n = nops_override >= 0 ? nops_override : d->nops;
    for (int i = 0; i < n; i++) o[i] = make_op (&e, i < d->nops ? kinds[i] : K_Ri);
    if (d->flags & F_OVF_BRANCH)
      MIR_append_insn (e.ctx, e.func, MIR_new_insn (e.ctx, MIR_ADDO, MIR_new_reg_op (e.ctx, e.ri), MIR_new_reg_op (e.ctx, e.ri), MIR_new_reg_op (e.ctx, e.ri2)));
    MIR_append_insn (e.ctx, e.func, MIR_new_insn_arr (e.ctx, d->code, n, o));
    MIR_finish_func (e.ctx);
    MIR_finish_module (e.ctx);
    VP_END;
  } else {
    rejected = 1;
    if ((unsigned) vp_err_type < 64) err_hist[vp_err_type]++;
  }
  vp_err_armed = 0;
  return rejected;
}

/* fpkey: fingerprint key = operand class(es) and kind(s) varied, without opcode/position, so that one defect in a shared
   checking path gives one VIOLATION line (the detail names the first opcode that showed it) */
static void judge (const opdesc_t *d, int kinds[4], int verdict, uint64_t errs, int rejected, const char *fpkey) {
  char desc[256];
  int o = snprintf (desc, sizeof desc, "%s(", d->name);
  for (int i = 0; i < d->nops; i++) o += snprintf (desc + o, sizeof desc - o, "%s%s:%s", i ? ", " : "", cls_name[d->c[i]], kind_name[kinds[i]]);
  snprintf (desc + o, sizeof desc - o, ")");
  char fp[160];
  if (verdict == UNS) { n_unspec++; if (rejected) n_unspec_rej++; else n_unspec_acc++; return; }
  if (verdict == ACC) {
    if (!rejected) { n_acc_ok++; return; }
    snprintf (fp, sizeof fp, "wellformed-rejected:%s", fpkey);
    vp_viol (fp, "case=%ld %s is allowed by MIR.md but the error callback fired: %s (%s)", cur_case, desc, vp_err_name (vp_err_type), vp_err_msg);
    return;
  }
  if (!rejected) {
    snprintf (fp, sizeof fp, "illformed-accepted:%s", fpkey);
    vp_viol (fp, "case=%ld %s is ill-formed per MIR.md but was accepted (no error callback)", cur_case, desc);
    return;
  }
  if (!((errs >> vp_err_type) & 1)) {
    snprintf (fp, sizeof fp, "unspecific-error:%s:%s", fpkey, vp_err_name (vp_err_type));
    vp_viol (fp, "case=%ld %s rejected with error '%s' (%s), which is not one of the specific codes expected for this fault", cur_case, desc,
             vp_err_name (vp_err_type), vp_err_msg);
    return;
  }
  n_rej_ok++;
}

/* ---- single sweep: index -> (op, pos, kind) */
static long single_total (void) { long t = 0; for (int i = 0; i < NOPS; i++) t += (long) ops[i].nops * NKINDS; return t; }
static void single_case (long idx) {
  for (int i = 0; i < NOPS; i++) {
    long n = (long) ops[i].nops * NKINDS;
    if (idx < n) {
      const opdesc_t *d = &ops[i];
      int pos = (int) (idx / NKINDS), k = (int) (idx % NKINDS), kinds[4];
      for (int j = 0; j < d->nops; j++) kinds[j] = default_kind (d->c[j]);
      kinds[pos] = k;
      uint64_t errs; int v = expect (d->c[pos], k, &errs);
      char what[64]; snprintf (what, sizeof what, "%s:%s", cls_name[d->c[pos]], kind_name[k]);
      judge (d, kinds, v, errs, run_insn (d, kinds, -1), what);
      return;
    }
    idx -= n;
  }
}
/* ---- pairs sweep: 2 positions varied; verdict = REJ if either rejects (errors: union), ACC if both ACC, else UNS */
static long pairs_total (void) { long t = 0; for (int i = 0; i < NOPS; i++) if (ops[i].nops >= 2) t += (long) (ops[i].nops * (ops[i].nops - 1) / 2) * NKINDS * NKINDS; return t; }
static void pairs_case (long idx) {
  for (int i = 0; i < NOPS; i++) {
    const opdesc_t *d = &ops[i];
    if (d->nops < 2) continue;
    long np = d->nops * (d->nops - 1) / 2, n = np * NKINDS * NKINDS;
    if (idx < n) {
      int pr = (int) (idx / (NKINDS * NKINDS)), k1 = (int) (idx / NKINDS % NKINDS), k2 = (int) (idx % NKINDS), p1 = 0, p2 = 1, kinds[4];
      for (int a = 0, c = 0; a < d->nops; a++) for (int b = a + 1; b < d->nops; b++, c++) if (c == pr) { p1 = a; p2 = b; }
      for (int j = 0; j < d->nops; j++) kinds[j] = default_kind (d->c[j]);
      kinds[p1] = k1; kinds[p2] = k2;
      uint64_t e1, e2; int v1 = expect (d->c[p1], k1, &e1), v2 = expect (d->c[p2], k2, &e2), v;
      if (v1 == REJ || v2 == REJ) v = (v1 == UNS || v2 == UNS) ? UNS : REJ; /* an unspecified operand may legitimately be rejected first with any code */
      else v = (v1 == ACC && v2 == ACC) ? ACC : UNS;
      char what[96]; snprintf (what, sizeof what, "%s:%s+%s:%s", cls_name[d->c[p1]], kind_name[k1], cls_name[d->c[p2]], kind_name[k2]);
      judge (d, kinds, v, e1 | e2, run_insn (d, kinds, -1), what);
      return;
    }
    idx -= n;
  }
}
/* ---- arity sweep: opcode value 0..INSN_BOUND+2 x nops 0..6 */
#define ARITY_MAXN 7
static long arity_total (void) { return (long) (MIR_INSN_BOUND + 3) * ARITY_MAXN; }
static const opdesc_t *find_desc (int code) { for (int i = 0; i < NOPS; i++) if ((int) ops[i].code == code) return &ops[i]; return NULL; }
static void arity_case (long idx) {
  int code = (int) (idx / ARITY_MAXN), n = (int) (idx % ARITY_MAXN);
  const opdesc_t *d = find_desc (code);
  char fp[128];
  if (d != NULL) {
    if (n == d->nops) return; /* covered by single sweep */
    int kinds[4]; for (int j = 0; j < d->nops; j++) kinds[j] = default_kind (d->c[j]);
    int rej = run_insn (d, kinds, n);
    if (!rej) { snprintf (fp, sizeof fp, "illformed-accepted:%s:nops=%d", d->name, n); vp_viol (fp, "case=%ld %s created with %d operands (needs %d) was accepted", cur_case, d->name, n, d->nops); }
    else if (vp_err_type != MIR_ops_num_error) { snprintf (fp, sizeof fp, "unspecific-error:%s:nops=%d:%s", d->name, n, vp_err_name (vp_err_type)); vp_viol (fp, "case=%ld %s with %d operands: error '%s' (%s) instead of ops_num", cur_case, d->name, n, vp_err_name (vp_err_type), vp_err_msg); }
    else n_rej_ok++;
    return;
  }
  /* not a fixed-arity user opcode: LABEL, UNSPEC, USE, PHI, INVALID_INSN, >= INSN_BOUND, and variable-arity ones handled in `special` */
  if (code == MIR_CALL || code == MIR_INLINE || code == MIR_JCALL || code == MIR_SWITCH || code == MIR_RET) return;
  env_t e; int rejected = 0;
  if (VP_TRY) {
    env_open (&e, 0, 0, NULL);
    MIR_op_t o[8];
    for (int i = 0; i < n; i++) o[i] = make_op (&e, K_Ri);
    MIR_append_insn (e.ctx, e.func, MIR_new_insn_arr (e.ctx, (MIR_insn_code_t) code, n, o));
    MIR_finish_func (e.ctx);
    VP_END;
  } else rejected = 1;
  vp_err_armed = 0;
  if (code == MIR_UNSPEC) { n_unspec++; return; } /* internal; not documented for users */
  if ((code == MIR_LABEL || code == MIR_INVALID_INSN) && n == 0) { n_unspec++; if (rejected) n_unspec_rej++; else n_unspec_acc++; return; } /* MIR.md silent */
  if (!rejected) {
    snprintf (fp, sizeof fp, "illformed-accepted:code%d:nops=%d", code, n);
    vp_viol (fp, "case=%ld insn code %d (%s) with %d register operands was accepted", cur_case, code,
             code == MIR_LABEL ? "LABEL" : code == MIR_USE ? "USE" : code == MIR_PHI ? "PHI" : code == MIR_INVALID_INSN ? "INVALID_INSN" : "out of range", n);
  } else n_rej_ok++;
}

/* ---- special rules: an enumerated list of (name, builder, expectation) */
typedef struct { const char *name; int verdict; uint64_t errs; void (*build) (env_t *e); int vararg; int nres; MIR_type_t res[3]; } special_t;
#define RI(e) MIR_new_reg_op ((e)->ctx, (e)->ri)
#define RF(e) MIR_new_reg_op ((e)->ctx, (e)->rf)
#define RD(e) MIR_new_reg_op ((e)->ctx, (e)->rd)
#define RLD(e) MIR_new_reg_op ((e)->ctx, (e)->rld)
#define LAB(e) MIR_new_label_op ((e)->ctx, (e)->lab)
#define APP(e, i) MIR_append_insn ((e)->ctx, (e)->func, (i))
static void b_ret_ok0 (env_t *e) { APP (e, MIR_new_ret_insn (e->ctx, 0)); }
static void b_ret_extra (env_t *e) { APP (e, MIR_new_ret_insn (e->ctx, 1, RI (e))); }
static void b_ret_i (env_t *e) { APP (e, MIR_new_ret_insn (e->ctx, 1, RI (e))); }
static void b_ret_missing (env_t *e) { APP (e, MIR_new_ret_insn (e->ctx, 0)); }
static void b_ret_f_for_i (env_t *e) { APP (e, MIR_new_ret_insn (e->ctx, 1, RF (e))); }
static void b_ret_i_for_d (env_t *e) { APP (e, MIR_new_ret_insn (e->ctx, 1, RI (e))); }
static void b_ret_imm (env_t *e) { APP (e, MIR_new_ret_insn (e->ctx, 1, MIR_new_int_op (e->ctx, 5))); }
static void b_ret_2ok (env_t *e) { APP (e, MIR_new_ret_insn (e->ctx, 2, RI (e), RD (e))); }
static void b_ret_2swapped (env_t *e) { APP (e, MIR_new_ret_insn (e->ctx, 2, RD (e), RI (e))); }
static void b_ret_lab (env_t *e) { APP (e, MIR_new_ret_insn (e->ctx, 1, LAB (e))); }
static void b_jret_and_ret (env_t *e) { APP (e, MIR_new_insn (e->ctx, MIR_JRET, RI (e))); APP (e, MIR_new_ret_insn (e->ctx, 0)); }
static void b_jret_with_res (env_t *e) { APP (e, MIR_new_insn (e->ctx, MIR_JRET, RI (e))); }
static void b_vastart_nonvararg (env_t *e) { APP (e, MIR_new_insn (e->ctx, MIR_VA_START, RI (e))); }
static void b_vastart_vararg (env_t *e) { APP (e, MIR_new_insn (e->ctx, MIR_VA_START, RI (e))); }
static void b_vastart_undefmem (env_t *e) { APP (e, MIR_new_insn (e->ctx, MIR_VA_START, MIR_new_mem_op (e->ctx, MIR_T_UNDEF, 0, e->ri, 0, 1))); }
static void b_vaarg_undefmem (env_t *e) { APP (e, MIR_new_insn (e->ctx, MIR_VA_ARG, RI (e), MIR_new_mem_op (e->ctx, MIR_T_UNDEF, 0, e->ri, 0, 1), MIR_new_mem_op (e->ctx, MIR_T_D, 0, 0, 0, 1))); }
static void b_bo_ok (env_t *e) { APP (e, MIR_new_insn (e->ctx, MIR_ADDO, RI (e), RI (e), RI (e))); APP (e, MIR_new_insn (e->ctx, MIR_BO, LAB (e))); }
static void b_bo_after_mov (env_t *e) { APP (e, MIR_new_insn (e->ctx, MIR_SUBOS, RI (e), RI (e), RI (e))); APP (e, MIR_new_insn (e->ctx, MIR_MOV, MIR_new_reg_op (e->ctx, e->ri2), RI (e))); APP (e, MIR_new_insn (e->ctx, MIR_UBNO, LAB (e))); }
static void b_bo_first (env_t *e) { APP (e, MIR_new_insn (e->ctx, MIR_BO, LAB (e))); }
static void b_bo_after_add (env_t *e) { APP (e, MIR_new_insn (e->ctx, MIR_ADD, RI (e), RI (e), RI (e))); APP (e, MIR_new_insn (e->ctx, MIR_BNO, LAB (e))); }
static void b_ubo_after_mulo (env_t *e) { APP (e, MIR_new_insn (e->ctx, MIR_MULO, RI (e), RI (e), RI (e))); APP (e, MIR_new_insn (e->ctx, MIR_UBO, LAB (e))); }
static void b_bo_after_umulo (env_t *e) { APP (e, MIR_new_insn (e->ctx, MIR_UMULOS, RI (e), RI (e), RI (e))); APP (e, MIR_new_insn (e->ctx, MIR_BO, LAB (e))); }
static void b_ubo_after_umulo (env_t *e) { APP (e, MIR_new_insn (e->ctx, MIR_UMULO, RI (e), RI (e), RI (e))); APP (e, MIR_new_insn (e->ctx, MIR_UBO, LAB (e))); }
static void b_bo_after_mulo (env_t *e) { APP (e, MIR_new_insn (e->ctx, MIR_MULOS, RI (e), RI (e), RI (e))); APP (e, MIR_new_insn (e->ctx, MIR_BNO, LAB (e))); }
static void b_switch_ok (env_t *e) { MIR_op_t o[3] = {RI (e), LAB (e), LAB (e)}; APP (e, MIR_new_insn_arr (e->ctx, MIR_SWITCH, 3, o)); }
static void b_switch_1op (env_t *e) { MIR_op_t o[1] = {RI (e)}; APP (e, MIR_new_insn_arr (e->ctx, MIR_SWITCH, 1, o)); }
static void b_switch_flt (env_t *e) { MIR_op_t o[2] = {RD (e), LAB (e)}; APP (e, MIR_new_insn_arr (e->ctx, MIR_SWITCH, 2, o)); }
static void b_switch_nonlab (env_t *e) { MIR_op_t o[3] = {RI (e), LAB (e), RI (e)}; APP (e, MIR_new_insn_arr (e->ctx, MIR_SWITCH, 3, o)); }
static void b_switch_imm (env_t *e) { MIR_op_t o[2] = {MIR_new_int_op (e->ctx, 0), LAB (e)}; APP (e, MIR_new_insn_arr (e->ctx, MIR_SWITCH, 2, o)); }
/* calls against proto p: i64 p (i64 a) */
static void b_call_ok (env_t *e) { APP (e, MIR_new_call_insn (e->ctx, 4, MIR_new_ref_op (e->ctx, e->proto), MIR_new_ref_op (e->ctx, e->import), RI (e), RI (e))); }
static void b_call_reg_callee (env_t *e) { APP (e, MIR_new_call_insn (e->ctx, 4, MIR_new_ref_op (e->ctx, e->proto), RI (e), RI (e), MIR_new_int_op (e->ctx, 1))); }
static void b_inline_ok (env_t *e) { MIR_op_t o[4] = {MIR_new_ref_op (e->ctx, e->proto), MIR_new_ref_op (e->ctx, e->other_func), RI (e), RI (e)}; APP (e, MIR_new_insn_arr (e->ctx, MIR_INLINE, 4, o)); }
static void b_call_noproto (env_t *e) { APP (e, MIR_new_call_insn (e->ctx, 4, MIR_new_ref_op (e->ctx, e->import), MIR_new_ref_op (e->ctx, e->import), RI (e), RI (e))); }
static void b_call_proto_is_reg (env_t *e) { APP (e, MIR_new_call_insn (e->ctx, 4, RI (e), MIR_new_ref_op (e->ctx, e->import), RI (e), RI (e))); }
static void b_call_few (env_t *e) { APP (e, MIR_new_call_insn (e->ctx, 3, MIR_new_ref_op (e->ctx, e->proto), MIR_new_ref_op (e->ctx, e->import), RI (e))); }
static void b_call_many (env_t *e) { APP (e, MIR_new_call_insn (e->ctx, 5, MIR_new_ref_op (e->ctx, e->proto), MIR_new_ref_op (e->ctx, e->import), RI (e), RI (e), RI (e))); }
static void b_call_1op (env_t *e) { APP (e, MIR_new_call_insn (e->ctx, 1, MIR_new_ref_op (e->ctx, e->proto))); }
static void b_call_res_imm (env_t *e) { APP (e, MIR_new_call_insn (e->ctx, 4, MIR_new_ref_op (e->ctx, e->proto), MIR_new_ref_op (e->ctx, e->import), MIR_new_int_op (e->ctx, 1), RI (e))); }
static void b_call_res_flt (env_t *e) { APP (e, MIR_new_call_insn (e->ctx, 4, MIR_new_ref_op (e->ctx, e->proto), MIR_new_ref_op (e->ctx, e->import), RD (e), RI (e))); }
static void b_call_arg_flt (env_t *e) { APP (e, MIR_new_call_insn (e->ctx, 4, MIR_new_ref_op (e->ctx, e->proto), MIR_new_ref_op (e->ctx, e->import), RI (e), RD (e))); }
static void b_call_arg_lab (env_t *e) { APP (e, MIR_new_call_insn (e->ctx, 4, MIR_new_ref_op (e->ctx, e->proto), MIR_new_ref_op (e->ctx, e->import), RI (e), LAB (e))); }
static void b_call_callee_flt (env_t *e) { APP (e, MIR_new_call_insn (e->ctx, 4, MIR_new_ref_op (e->ctx, e->proto), RD (e), RI (e), RI (e))); }
static void b_call_callee_lab (env_t *e) { APP (e, MIR_new_call_insn (e->ctx, 4, MIR_new_ref_op (e->ctx, e->proto), LAB (e), RI (e), RI (e))); }
static void b_call_blk_for_int (env_t *e) { APP (e, MIR_new_call_insn (e->ctx, 4, MIR_new_ref_op (e->ctx, e->proto), MIR_new_ref_op (e->ctx, e->import), RI (e), MIR_new_mem_op (e->ctx, MIR_T_BLK, 16, e->ri, 0, 1))); }
static void b_call_res_blk (env_t *e) { APP (e, MIR_new_call_insn (e->ctx, 4, MIR_new_ref_op (e->ctx, e->proto), MIR_new_ref_op (e->ctx, e->import), MIR_new_mem_op (e->ctx, MIR_T_BLK, 16, e->ri, 0, 1), RI (e))); }
static void b_jcall_ok (env_t *e) { MIR_type_t i64 = MIR_T_I64; MIR_var_t a = {MIR_T_I64, "a", 0}; MIR_item_t p0; (void) i64;
  (void) a; p0 = MIR_new_proto_arr (e->ctx, "p0", 0, NULL, 0, NULL);
  MIR_op_t o[2] = {MIR_new_ref_op (e->ctx, p0), MIR_new_ref_op (e->ctx, e->import)}; APP (e, MIR_new_insn_arr (e->ctx, MIR_JCALL, 2, o)); }
static void b_jcall_arg_flt (env_t *e) { MIR_var_t a = {MIR_T_I64, "a", 0}; MIR_item_t p0 = MIR_new_proto_arr (e->ctx, "p0", 0, NULL, 1, &a);
  MIR_op_t o[3] = {MIR_new_ref_op (e->ctx, p0), MIR_new_ref_op (e->ctx, e->import), RD (e)}; APP (e, MIR_new_insn_arr (e->ctx, MIR_JCALL, 3, o)); }
static void b_jcall_arg_lab (env_t *e) { MIR_var_t a = {MIR_T_I64, "a", 0}; MIR_item_t p0 = MIR_new_proto_arr (e->ctx, "p0", 0, NULL, 1, &a);
  MIR_op_t o[3] = {MIR_new_ref_op (e->ctx, p0), MIR_new_ref_op (e->ctx, e->import), LAB (e)}; APP (e, MIR_new_insn_arr (e->ctx, MIR_JCALL, 3, o)); }
/* block args: proto pb: (blk:16 b, rblk:8 r, ...) */
static MIR_item_t mk_pb (env_t *e, int vararg) { MIR_var_t a[2] = {{MIR_T_BLK + 1, "b", 16}, {MIR_T_RBLK, "r", 8}};
  return vararg ? MIR_new_vararg_proto_arr (e->ctx, "pb", 0, NULL, 2, a) : MIR_new_proto_arr (e->ctx, "pb", 0, NULL, 2, a); }
#define MB(e, t, sz) MIR_new_mem_op ((e)->ctx, (t), (sz), (e)->ri, 0, 1)
static void b_blk_ok (env_t *e) { APP (e, MIR_new_call_insn (e->ctx, 4, MIR_new_ref_op (e->ctx, mk_pb (e, 0)), MIR_new_ref_op (e->ctx, e->import), MB (e, MIR_T_BLK + 1, 16), MB (e, MIR_T_RBLK, 8))); }
static void b_blk_kind (env_t *e) { APP (e, MIR_new_call_insn (e->ctx, 4, MIR_new_ref_op (e->ctx, mk_pb (e, 0)), MIR_new_ref_op (e->ctx, e->import), MB (e, MIR_T_BLK + 2, 16), MB (e, MIR_T_RBLK, 8))); }
static void b_blk_size (env_t *e) { APP (e, MIR_new_call_insn (e->ctx, 4, MIR_new_ref_op (e->ctx, mk_pb (e, 0)), MIR_new_ref_op (e->ctx, e->import), MB (e, MIR_T_BLK + 1, 24), MB (e, MIR_T_RBLK, 8))); }
static void b_blk_rblk_swapped (env_t *e) { APP (e, MIR_new_call_insn (e->ctx, 4, MIR_new_ref_op (e->ctx, mk_pb (e, 0)), MIR_new_ref_op (e->ctx, e->import), MB (e, MIR_T_RBLK, 16), MB (e, MIR_T_BLK + 1, 8))); }
static void b_blk_nonblk_arg (env_t *e) { APP (e, MIR_new_call_insn (e->ctx, 4, MIR_new_ref_op (e->ctx, mk_pb (e, 0)), MIR_new_ref_op (e->ctx, e->import), RI (e), MB (e, MIR_T_RBLK, 8))); }
static void b_blk_vararg_tail_blk (env_t *e) { APP (e, MIR_new_call_insn (e->ctx, 5, MIR_new_ref_op (e->ctx, mk_pb (e, 1)), MIR_new_ref_op (e->ctx, e->import), MB (e, MIR_T_BLK + 1, 16), MB (e, MIR_T_RBLK, 8), MB (e, MIR_T_BLK, 32))); }
static void b_blk_vararg_tail_rblk (env_t *e) { APP (e, MIR_new_call_insn (e->ctx, 5, MIR_new_ref_op (e->ctx, mk_pb (e, 1)), MIR_new_ref_op (e->ctx, e->import), MB (e, MIR_T_BLK + 1, 16), MB (e, MIR_T_RBLK, 8), MB (e, MIR_T_RBLK, 8))); }
static void b_blk_negdisp (env_t *e) { MIR_var_t a[1] = {{MIR_T_BLK, "b", 16}}; MIR_item_t p = MIR_new_vararg_proto_arr (e->ctx, "pv", 0, NULL, 1, a);
  APP (e, MIR_new_call_insn (e->ctx, 4, MIR_new_ref_op (e->ctx, p), MIR_new_ref_op (e->ctx, e->import), MB (e, MIR_T_BLK, 16), MB (e, MIR_T_BLK, -8))); }
/* declarations */
static void b_decl_twice (env_t *e) { MIR_new_func_reg (e->ctx, e->func->u.func, MIR_T_I64, "ri"); }
static void b_decl_twice_othertype (env_t *e) { MIR_new_func_reg (e->ctx, e->func->u.func, MIR_T_D, "ri"); }
static void b_decl_same_as_arg (env_t *e) { MIR_new_func_reg (e->ctx, e->func->u.func, MIR_T_I64, "a"); }
static void b_decl_i32 (env_t *e) { MIR_new_func_reg (e->ctx, e->func->u.func, MIR_T_I32, "x32"); }
static void b_decl_p (env_t *e) { MIR_new_func_reg (e->ctx, e->func->u.func, MIR_T_P, "xp"); }
static void b_decl_blk (env_t *e) { MIR_new_func_reg (e->ctx, e->func->u.func, MIR_T_BLK, "xb"); }
static void b_decl_undef (env_t *e) { MIR_new_func_reg (e->ctx, e->func->u.func, MIR_T_UNDEF, "xu"); }
static void b_decl_reserved_t (env_t *e) { MIR_new_func_reg (e->ctx, e->func->u.func, MIR_T_I64, "t5"); }
static void b_decl_reserved_hr (env_t *e) { MIR_new_func_reg (e->ctx, e->func->u.func, MIR_T_I64, "hr5"); }
static void b_decl_ok_names (env_t *e) { MIR_new_func_reg (e->ctx, e->func->u.func, MIR_T_I64, "t"); MIR_new_func_reg (e->ctx, e->func->u.func, MIR_T_F, "tx1"); MIR_new_func_reg (e->ctx, e->func->u.func, MIR_T_D, "_t1"); }
static void b_use_insn (env_t *e) { MIR_op_t o[1] = {RI (e)}; APP (e, MIR_new_insn_arr (e->ctx, MIR_USE, 1, o)); }
static void b_phi_insn (env_t *e) { MIR_op_t o[3] = {RI (e), RI (e), RI (e)}; APP (e, MIR_new_insn_arr (e->ctx, MIR_PHI, 3, o)); }
static void b_nested_func (env_t *e) { MIR_new_func_arr (e->ctx, "h", 0, NULL, 0, NULL); }
static void b_two_same_func (env_t *e) { MIR_finish_func (e->ctx); MIR_new_func_arr (e->ctx, "f", 0, NULL, 0, NULL); }
static void b_reg_of_other_func (env_t *e) { MIR_reg (e->ctx, "nonexistent", e->func->u.func); }

#define VARARG_ERRS (E (vararg_func))
static const special_t specials[] = {
  {"ret0-in-void", ACC, 0, b_ret_ok0, 0, 0, {0}},
  {"ret1-in-void", REJ, E (vararg_func) | E (ret) | E (ops_num), b_ret_extra, 0, 0, {0}},
  {"ret-i64-ok", ACC, 0, b_ret_i, 0, 1, {MIR_T_I64}},
  {"ret-i64-imm-ok", ACC, 0, b_ret_imm, 0, 1, {MIR_T_I64}},
  {"ret-narrow-i8-ok", ACC, 0, b_ret_i, 0, 1, {MIR_T_I8}},
  {"ret0-in-i64", REJ, E (vararg_func) | E (ret) | E (ops_num), b_ret_missing, 0, 1, {MIR_T_I64}},
  {"ret-f-for-i64", REJ, E (op_mode) | E (ret), b_ret_f_for_i, 0, 1, {MIR_T_I64}},
  {"ret-i-for-d", REJ, E (op_mode) | E (ret), b_ret_i_for_d, 0, 1, {MIR_T_D}},
  {"ret-label-for-i64", REJ, E (op_mode) | E (ret), b_ret_lab, 0, 1, {MIR_T_I64}},
  {"ret-2-ok", ACC, 0, b_ret_2ok, 0, 2, {MIR_T_I64, MIR_T_D}},
  {"ret-2-swapped", REJ, E (op_mode) | E (ret), b_ret_2swapped, 0, 2, {MIR_T_I64, MIR_T_D}},
  {"jret-then-ret", REJ, E (vararg_func) | E (ret) | E (invalid_insn), b_jret_and_ret, 0, 0, {0}},
  {"jret-in-func-with-result", REJ, E (vararg_func) | E (ret) | E (invalid_insn), b_jret_with_res, 0, 1, {MIR_T_I64}},
  {"va_start-in-nonvararg", REJ, E (vararg_func), b_vastart_nonvararg, 0, 0, {0}},
  {"va_start-in-vararg", ACC, 0, b_vastart_vararg, 1, 0, {0}},
  {"va_start-undef-mem", ACC, 0, b_vastart_undefmem, 1, 0, {0}},
  {"va_arg-undef-mem", ACC, 0, b_vaarg_undefmem, 1, 0, {0}},
  {"bo-after-addo", ACC, 0, b_bo_ok, 0, 0, {0}},
  {"ubno-after-subos-and-regmov", ACC, 0, b_bo_after_mov, 0, 0, {0}},
  {"ubo-after-umulo", ACC, 0, b_ubo_after_umulo, 0, 0, {0}},
  {"bno-after-mulos", ACC, 0, b_bo_after_mulo, 0, 0, {0}},
  {"bo-first-insn", REJ, E (invalid_insn), b_bo_first, 0, 0, {0}},
  {"bno-after-add", REJ, E (invalid_insn), b_bo_after_add, 0, 0, {0}},
  {"ubo-after-mulo", REJ, E (invalid_insn), b_ubo_after_mulo, 0, 0, {0}},
  {"bo-after-umulos", REJ, E (invalid_insn), b_bo_after_umulo, 0, 0, {0}},
  {"switch-ok", ACC, 0, b_switch_ok, 0, 0, {0}},
  {"switch-imm-index", ACC, 0, b_switch_imm, 0, 0, {0}},
  {"switch-1op", REJ, E (ops_num), b_switch_1op, 0, 0, {0}},
  {"switch-float-index", REJ, E (op_mode), b_switch_flt, 0, 0, {0}},
  {"switch-nonlabel", REJ, E (op_mode), b_switch_nonlab, 0, 0, {0}},
  {"call-ok", ACC, 0, b_call_ok, 0, 0, {0}},
  {"call-reg-callee-imm-arg", ACC, 0, b_call_reg_callee, 0, 0, {0}},
  {"inline-ok", ACC, 0, b_inline_ok, 0, 0, {0}},
  {"jcall-ok", ACC, 0, b_jcall_ok, 0, 0, {0}},
  {"call-first-op-not-proto", REJ, E (call_op), b_call_noproto, 0, 0, {0}},
  {"call-first-op-reg", REJ, E (call_op), b_call_proto_is_reg, 0, 0, {0}},
  {"call-too-few", REJ, E (call_op) | E (ops_num), b_call_few, 0, 0, {0}},
  {"call-too-many", REJ, E (call_op) | E (ops_num), b_call_many, 0, 0, {0}},
  {"call-1op", REJ, E (call_op) | E (ops_num), b_call_1op, 0, 0, {0}},
  {"call-result-imm", REJ, E (out_op) | E (op_mode) | E (call_op), b_call_res_imm, 0, 0, {0}},
  {"call-result-double-for-i64", REJ, E (op_mode) | E (call_op), b_call_res_flt, 0, 0, {0}},
  {"call-arg-double-for-i64", REJ, E (op_mode) | E (call_op), b_call_arg_flt, 0, 0, {0}},
  {"call-arg-label", REJ, E (op_mode) | E (call_op), b_call_arg_lab, 0, 0, {0}},
  {"call-callee-double", REJ, E (op_mode) | E (call_op), b_call_callee_flt, 0, 0, {0}},
  {"call-callee-label", REJ, E (op_mode) | E (call_op), b_call_callee_lab, 0, 0, {0}},
  {"call-blk-arg-for-int-param", REJ, E (wrong_type) | E (call_op), b_call_blk_for_int, 0, 0, {0}},
  {"call-blk-result", REJ, E (wrong_type) | E (call_op), b_call_res_blk, 0, 0, {0}},
  {"blk-args-ok", ACC, 0, b_blk_ok, 0, 0, {0}},
  {"blk-kind-mismatch", REJ, E (wrong_type) | E (call_op), b_blk_kind, 0, 0, {0}},
  {"blk-size-mismatch", REJ, E (wrong_type) | E (call_op), b_blk_size, 0, 0, {0}},
  {"blk-rblk-swapped", REJ, E (wrong_type) | E (call_op), b_blk_rblk_swapped, 0, 0, {0}},
  {"nonblk-arg-for-blk-param", REJ, E (wrong_type) | E (call_op), b_blk_nonblk_arg, 0, 0, {0}},
  {"blk-in-vararg-tail-ok", ACC, 0, b_blk_vararg_tail_blk, 0, 0, {0}},
  {"rblk-in-vararg-tail", REJ, E (wrong_type) | E (call_op), b_blk_vararg_tail_rblk, 0, 0, {0}},
  {"blk-negative-size", REJ, E (wrong_type) | E (call_op), b_blk_negdisp, 0, 0, {0}},
  {"reg-declared-twice", REJ, E (repeated_decl), b_decl_twice, 0, 0, {0}},
  {"reg-declared-twice-other-type", REJ, E (repeated_decl), b_decl_twice_othertype, 0, 0, {0}},
  {"reg-same-name-as-arg", REJ, E (repeated_decl), b_decl_same_as_arg, 0, 0, {0}},
  {"reg-type-i32", REJ, E (reg_type), b_decl_i32, 0, 0, {0}},
  {"reg-type-p", REJ, E (reg_type), b_decl_p, 0, 0, {0}},
  {"reg-type-blk", REJ, E (reg_type) | E (wrong_type), b_decl_blk, 0, 0, {0}},
  {"reg-type-undef", REJ, E (reg_type) | E (wrong_type), b_decl_undef, 0, 0, {0}},
  {"reg-names-t-tx1-_t1-ok", ACC, 0, b_decl_ok_names, 0, 0, {0}},
  {"use-insn", REJ, ~0ull, b_use_insn, 0, 0, {0}},
  {"phi-insn", REJ, ~0ull, b_phi_insn, 0, 0, {0}},
  {"nested-func", REJ, E (nested_func), b_nested_func, 0, 0, {0}},
  {"reg-lookup-undeclared-name", REJ, E (undeclared_func_reg), b_reg_of_other_func, 0, 0, {0}},
};
#define NSPECIALS ((int) (sizeof specials / sizeof specials[0]))
static void special_case (long idx) {
  const special_t *s = &specials[idx];
  env_t e; int rejected = 0;
  if (VP_TRY) {
    env_open (&e, s->vararg, s->nres, (MIR_type_t *) s->res);
    s->build (&e);
    if (s->build != b_two_same_func) MIR_finish_func (e.ctx);
    MIR_finish_module (e.ctx);
    VP_END;
  } else rejected = 1;
  vp_err_armed = 0;
  char fp[128];
  if (s->verdict == ACC && rejected) { snprintf (fp, sizeof fp, "wellformed-rejected:special:%s", s->name); vp_viol (fp, "case=%ld special '%s' is allowed by MIR.md but raised %s (%s)", cur_case, s->name, vp_err_name (vp_err_type), vp_err_msg); }
  else if (s->verdict == REJ && !rejected) { snprintf (fp, sizeof fp, "illformed-accepted:special:%s", s->name); vp_viol (fp, "case=%ld special '%s' is ill-formed per MIR.md but was accepted", cur_case, s->name); }
  else if (s->verdict == REJ && !((s->errs >> vp_err_type) & 1)) { snprintf (fp, sizeof fp, "unspecific-error:special:%s:%s", s->name, vp_err_name (vp_err_type)); vp_viol (fp, "case=%ld special '%s' rejected with '%s' (%s), not a specific expected code", cur_case, s->name, vp_err_name (vp_err_type), vp_err_msg); }
  else if (s->verdict == ACC) n_acc_ok++; else n_rej_ok++;
}

int main (int argc, char **argv) {
  vp_args_t a = vp_parse_args (argc, argv);
  for (int i = 1; i < argc; i++)
    if (!strcmp (argv[i], "--query")) {
      long t = !strcmp (a.mode, "single") ? single_total () : !strcmp (a.mode, "pairs") ? pairs_total () : !strcmp (a.mode, "arity") ? arity_total () : NSPECIALS;
      printf ("TOTAL %ld\n", t);
      return 0;
    }
  long done = 0;
  for (long c = a.start; c < a.start + a.count; c++) {
    cur_case = c;
    if ((c & 63) == 0 || a.count < 100) vp_case_begin (c);
    if (!strcmp (a.mode, "single")) single_case (c);
    else if (!strcmp (a.mode, "pairs")) pairs_case (c);
    else if (!strcmp (a.mode, "arity")) arity_case (c);
    else if (!strcmp (a.mode, "special")) { if (c < NSPECIALS) special_case (c); }
    else return 3;
    done++;
  }
  if (a.start == 0) vp_sample ("mode=%s: e.g. ADD(iO:Ri, iI:If, iI:Ri) must raise op_mode; MOV(iO:Mi8, iI:Iu) must be accepted; %d opcodes x <=4 positions x %d operand kinds", a.mode, NOPS, NKINDS);
  printf ("EV cases %ld\nEV cases_%s %ld\nEV accepted_as_documented %ld\nEV rejected_with_specific_code %ld\nEV unspecified_observed %ld\nEV unspecified_accepted %ld\nEV unspecified_rejected %ld\n",
          done, a.mode, done, n_acc_ok, n_rej_ok, n_unspec, n_unspec_acc, n_unspec_rej);
  for (int i = 0; i < 64; i++) if (err_hist[i]) printf ("EV error_%s %ld\n", vp_err_name (i), err_hist[i]);
  return 0;
}
