"""Static facts about generated MIR text (used to identify known findings by program feature, never to judge a result)."""
import re


def functions(text):
    cur = None
    for ln in text.splitlines():
        m = re.match(r"^(\w+):\s+func\b", ln)
        if m:
            cur = [m.group(1), []]
            continue
        if cur is not None:
            if re.match(r"^\s*endfunc\b", ln):
                yield cur[0], cur[1]
                cur = None
            else:
                cur[1].append(ln)


def unreachable_laddr_with_reachable_jmpi(text):
    """True if in some function a laddr insn lies in statically unreachable code while a jmpi insn is reachable.  Reachability: fall through,
    jmp/branch/switch targets, and from every reachable jmpi to every label whose address is taken by a *reachable* laddr or by an lref item."""
    lref_labels = set(re.findall(r"^\s*(?:\w+:\s*)?lref\s+(\w+)", text, re.M)) | set(re.findall(r"^\s*(?:\w+:\s*)?lref\s+\w+\s*,\s*(\w+)", text, re.M))
    for _name, lines in functions(text):
        items = []   # (kind, payload)
        labels = {}
        for ln in lines:
            s = ln.strip()
            if not s or s.startswith("local") or s.startswith("#"):
                continue
            m = re.match(r"^(\w+):$", s)
            if m:
                labels[m.group(1)] = len(items)
                items.append(("label", m.group(1)))
                continue
            parts = s.split(None, 1)
            op = parts[0]
            args = [a.strip() for a in parts[1].split(",")] if len(parts) > 1 else []
            items.append((op, args))
        if not any(op == "laddr" for op, _ in items) or not any(op == "jmpi" for op, _ in items):
            continue
        n = len(items)
        reach = [False] * n
        taken = set(l for l in lref_labels if l in labels)
        work = [0] if n else []
        jmpis = []
        while True:
            while work:
                i = work.pop()
                while i < n and not reach[i]:
                    reach[i] = True
                    op, a = items[i]
                    if op == "label":
                        i += 1
                        continue
                    if op == "laddr" and len(a) > 1 and a[1] in labels and a[1] not in taken:
                        taken.add(a[1])
                    if op == "jmp":
                        if a and a[0] in labels:
                            work.append(labels[a[0]])
                        break
                    if op in ("ret", "jret"):
                        break
                    if op == "jmpi":
                        jmpis.append(i)
                        break
                    if op == "switch":
                        for x in a[1:]:
                            if x in labels:
                                work.append(labels[x])
                        break
                    if a and a[0] in labels and op not in ("laddr",):
                        work.append(labels[a[0]])   # conditional branch: target + fall through
                    i += 1
            new = [labels[l] for l in taken if not reach[labels[l]]] if jmpis else []
            if not new:
                break
            work.extend(new)
        if jmpis and any(op == "laddr" and not reach[i] for i, (op, _) in enumerate(items)):
            return True
    return False
