"""C18: independent contexts in different threads do not interfere (ThreadSanitizer build + per-thread results vs single-threaded prediction)."""
import os
import re
import subprocess
from vlib import build, common

RULE = ("one run = N threads (8 quick / 16 thorough), each looping over whole single-context workloads drawn from a pool of generated MIR programs and "
        "C sources: MIR_init, [c2mir_init + c2mir_compile | MIR_scan_string], [MIR_write/MIR_read through callbacks into a second context], "
        "[MIR_output to a memory stream], load, link (interp, gen -O0..-O3, lazy, lazy BB), 3-4 entry calls, finish calls; barriers make all "
        "threads enter MIR_init/MIR_gen_init/c2mir_init together in one round of three and run (lazily generate) code together in another; random "
        "yields/sleeps between API calls. Monitors: ThreadSanitizer on the whole library (every report is a violation, fingerprint = kind + "
        "function) and equality of every thread's results, memory and external-call order with the single-threaded reference-model prediction")


def one_run(res, exe, seed, threads, iters):
    env = dict(os.environ)
    env["TSAN_OPTIONS"] = "halt_on_error=0 report_signal_unsafe=0 second_deadlock_stack=1"
    cmd = [exe, "--seed", str(seed), "--threads", str(threads), "--iters", str(iters)]
    try:
        r = subprocess.run(cmd, stdout=subprocess.PIPE, stderr=subprocess.PIPE, env=env, timeout=3000, errors="replace", text=True)
    except subprocess.TimeoutExpired:
        res.inconclusive.append("watchdog: " + " ".join(cmd))
        return
    res.merge_lines(r.stdout.splitlines(), cmd=" ".join(cmd))
    reports = re.split(r"(?=WARNING: ThreadSanitizer)", r.stderr)
    for rep in reports:
        m = re.match(r"WARNING: ThreadSanitizer: ([^\n(]+)", rep)
        if not m:
            continue
        kind = m.group(1).strip().replace(" ", "-")
        sm = re.search(r"SUMMARY: ThreadSanitizer: [^\n]*? in (\w+)", rep)
        fn = sm.group(1) if sm else "?"
        # frames outside the library (libc internals reached from the harness) are not library state
        res.add_viol("tsan:%s:%s" % (kind, fn), rep[:3500], cmd=" ".join(cmd))
        res.counters["tsan_reports"] = res.counters.get("tsan_reports", 0) + 1
    m = re.search(r"ThreadSanitizer: (SEGV|BUS|FPE|ILL|ABRT)[^\n]*", r.stderr)
    if m:  # a fatal signal caught by the sanitizer runtime: the run died
        res.add_viol("crash:%s-in-threaded-run" % m.group(1), r.stderr[-3000:], cmd=" ".join(cmd))
    elif r.returncode not in (0, 66) or "EV threads" not in r.stdout:  # 66 = TSan's exit code when it has reported something
        fp = "crash:%s:%s" % (common._sig_name(r.returncode), common.san_summary(r.stderr) or "nosummary")
        res.add_viol(fp, r.stderr[-3000:], cmd=" ".join(cmd))


def run(tier):
    res = common.Result("C18")
    th = tier == "thorough"
    exe = build.build_harness("c18", ["c18_threads.c"], "tsan")
    base = int(common.seed())
    runs = [(base, 8, 40), (base + 1000, 8, 40), (base + 2000, 12, 30)] if not th else [(base + k * 1000, 16, 150) for k in range(5)]
    for seed, threads, iters in runs:
        one_run(res, exe, seed, threads, iters)
    res.counters.setdefault("tsan_reports", 0)
    return common.finish(
        res, tier, RULE,
        assumptions=["generated machine code is not instrumented: ThreadSanitizer sees the library's own accesses (generator, interpreter, code "
                     "publication, allocator) but not loads and stores executed by JIT code, whose data are private to the thread anyway",
                     "the harness shares nothing writable between threads (read-only program pool, thread-local logs and buffers)"],
        evaluations=res.counters.get("entry_runs", 0),
        floor={"workloads": 300, "contexts": 300, "lazy_links": 20, "lazy_bb_links": 20, "interp_links": 20, "c2mir_workloads": 30})


def replay(path):
    print(open(path).read())
    return 0
