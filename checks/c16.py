"""C16: whole-function generation leaves the MIR program intact and is repeatable (fast + asan builds)."""
from vlib import build, common

MAX_LEVEL = 3  # highest -O level used by histories

RULE = ("one case = one history over a linked program (generated executable module + helper functions needing builtins, alloca, varargs, "
        "multiple results, a hard-register-tied global): random sequence of MIR_gen at random levels and in random order, repeated MIR_gen, "
        "textual output of every item, interpretation, calls through the public/generated address, and loading+linking later modules that "
        "call and inline the generated functions; under the interpreter interface + explicit MIR_gen, eager generation at link, and lazy "
        "generation. Oracle = the observation made before any generation. distinct = distinct program shape hashes")


def run(tier):
    res = common.Result("C16")
    th = tier == "thorough"
    seed = common.seed()
    for cfg in ("fast", "asan"):
        exe = build.build_harness("c16", ["c16_gen.c"], cfg)
        n = (80000 if th else 2400) if cfg == "fast" else (8000 if th else 320)
        common.run_sharded(res, exe, ["--seed", seed, "--extra", MAX_LEVEL], n, env=common.ASAN_ENV, timeout=3000)
        if cfg == "fast":  # open finding: lref tables are shared by the engines
            common.run_sharded(res, exe, ["--seed", seed, "--extra", MAX_LEVEL, "--mode", "lref"], 200 if th else 48, env=common.ASAN_ENV, timeout=3000)
    return common.finish(
        res, tier, RULE,
        assumptions=["helper prototype/import items the generator appends to the module are not compared (as the property says)",
                     "lazy basic-block generation is out of scope (the property speaks of whole-function generation)"],
        floor={"gen_calls": 500, "regen_same_address": 50, "output_unchanged": 500, "interp_after_gen_same": 100, "later_modules_ok": 50})


def replay(path):
    print(open(path).read())
    return 0
