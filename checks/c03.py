"""C03: every way of running a function (interp, interp C interface, eager/lazy/lazy-BB generation) gives the same observable behaviour."""
from checks import c01


def run(tier):
    return c01.run_jobs(tier, "C03", "c03",
                        [("main", "fast", c01.NOJ, 5000, 80000), ("main-asan", "asan", c01.NOJ, 250, 6000),
                         ("dispatch", "fast", 0, 800, 20000)],
                        floor=dict(c01.FLOOR, multi_module_programs=50))


replay = c01.replay
