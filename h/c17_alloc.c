/* C17: all memory goes through the user's allocators and is released at finish.
   Every context of a case is created with MIR_init2 (checking allocator, checking code allocator):
     - general allocator: blocks live in the harness's own mapping (never libc blocks), each with a header and a tail canary; a
       ledger checks realloc's old_size against the recorded size, frees of unknown/freed pointers, tail overruns; freed blocks
       are poisoned and stay quarantined until the end of the case, when the poison is verified (write after free); at the end of the
       history every block must have been freed.
     - code allocator: regions are mapped PROT_READ|PROT_EXEC and made writable only between mem_protect (WRITE_EXEC) and
       mem_protect (READ_EXEC); a store outside a window faults and the SIGSEGV handler attributes it; unmap must name a whole
       mapped region with its length; protect ranges must lie inside one region; at the end no region may be left.
     - in the `alloc` build the library objects have malloc/calloc/realloc/free/strdup/mmap/munmap/mprotect redirected to
       vp_lib_* (objcopy --redefine-sym): any direct use of libc from library code is recorded with its call site.
   One case = one error-free API history (see run_case).  */
#define _GNU_SOURCE
#include <setjmp.h>
#include <signal.h>
#include <sys/mman.h>
#include <dlfcn.h>
#include <execinfo.h>
#include "vp.h"
#include "mir.h"
#include "mir-gen.h"
#include "c2mir/c2mir.h"
#include "sem.h"
#include "prog.h"

static long cur_case; static uint64_t gseed;
static const char *phase = "";

/* ------------------------------------------------------------------ checking general allocator */
#define HDR_MAGIC 0x56504c4544474552ull
#define TAIL_MAGIC 0xa5c3e1f00f1e3c5aull
#define POISON 0xdf
typedef struct blk { uint64_t magic; size_t size; int state; /* 1 live 2 freed */ void *site; struct blk *next_all; struct blk *prev_all; } blk_t; /* 48 bytes: user pointers stay 16-byte aligned */
#if defined(__SANITIZE_ADDRESS__)
/* ASan build: every block is a real malloc block, really freed, so that ASan reports reads and writes after free and overruns with
   both stacks; the ledger keeps only live blocks (a doubly linked list) and asks ASan whether a header may be looked at */
#include <sanitizer/asan_interface.h>
#define VP_ASAN_BLOCKS 1
#endif
static char *pool; static size_t pool_used; static const size_t POOL = (size_t) 3 << 30;
static blk_t *all_blocks; static long n_live, n_alloc_calls, n_realloc_calls, n_free_calls, n_calloc_calls, max_live_bytes, live_bytes, n_realloc_grow_inplace;
static int in_lib_call; /* depth of user allocator calls (they never call libc's malloc themselves) */

static void report (const char *fp, const char *fmt, ...) __attribute__ ((format (printf, 2, 3)));
static int n_reports;
static void report (const char *fp, const char *fmt, ...) {
  char b[3000]; va_list ap; va_start (ap, fmt); vsnprintf (b, sizeof b, fmt, ap); va_end (ap);
  static char seen[64][96]; static int nseen, cnt[64]; static long seen_case = -1;
  if (seen_case != cur_case) { seen_case = cur_case; nseen = 0; }
  int i; for (i = 0; i < nseen; i++) if (!strncmp (seen[i], fp, 95)) break;
  if (i == nseen) { if (nseen == 64) return; snprintf (seen[nseen], 96, "%s", fp); cnt[nseen++] = 0; }
  if (cnt[i]++ < 2 && n_reports++ < 60) vp_viol (fp, "case=%ld phase=%s: %s", cur_case, phase, b);
}
/* symbol table of this executable (linked -no-pie), static functions included, read once from nm */
typedef struct { uintptr_t a; char name[48]; } sym_t;
static sym_t *syms; static int nsyms;
static void load_syms (void) {
  char exe[400], cmd[500], line[512]; ssize_t k = readlink ("/proc/self/exe", exe, sizeof exe - 1);
  if (k <= 0) return;
  exe[k] = 0; snprintf (cmd, sizeof cmd, "nm -n '%s' 2>/dev/null", exe);
  FILE *f = popen (cmd, "r");
  if (f == NULL) return;
  int cap = 0;
  while (fgets (line, sizeof line, f)) {
    unsigned long a; char t, nm[400];
    if (sscanf (line, "%lx %c %399s", &a, &t, nm) != 3 || (t != 't' && t != 'T')) continue;
    if (nsyms == cap) { cap = cap ? cap * 2 : 8192; syms = realloc (syms, (size_t) cap * sizeof (sym_t)); }
    syms[nsyms].a = a; snprintf (syms[nsyms].name, sizeof syms[nsyms].name, "%s", nm); char *dot = strchr (syms[nsyms].name, '.'); if (dot) *dot = 0; /* foo.constprop.0 */
    nsyms++;
  }
  pclose (f);
}
static const char *site_name (void *ra, char *buf, size_t n) {
  uintptr_t a = (uintptr_t) ra; int lo = 0, hi = nsyms - 1, best = -1;
  while (lo <= hi) { int mid = (lo + hi) / 2; if (syms[mid].a <= a) { best = mid; lo = mid + 1; } else hi = mid - 1; }
  snprintf (buf, n, "%s", best >= 0 && ra != NULL ? syms[best].name : "?");
  return buf;
}
/* first library frame above the allocator wrappers */
static void *caller_site (void) {
  void *bt[12]; int n = backtrace (bt, 12); char s[64];
  for (int i = 1; i < n; i++) {
    site_name (bt[i], s, sizeof s);
    if (!strncmp (s, "chk_", 4) || !strncmp (s, "MIR_malloc", 10) || !strncmp (s, "MIR_calloc", 10) || !strncmp (s, "MIR_realloc", 11) || !strncmp (s, "MIR_free", 8)
        || !strncmp (s, "vp_lib_", 7) || !strcmp (s, "caller_site") || !strcmp (s, "direct") || !strcmp (s, "raw_alloc")) continue;
    return bt[i];
  }
  return NULL;
}
static blk_t *hdr_of (void *p) { return (blk_t *) ((char *) p - sizeof (blk_t)); }
#ifdef VP_ASAN_BLOCKS
static int in_pool (void *p) { return p != NULL && !__asan_region_is_poisoned ((char *) p - sizeof (blk_t), sizeof (blk_t)) && hdr_of (p)->magic == HDR_MAGIC; }
static void unlink_blk (blk_t *b) { if (b->prev_all) b->prev_all->next_all = b->next_all; else all_blocks = b->next_all; if (b->next_all) b->next_all->prev_all = b->prev_all; }
#else
static int in_pool (void *p) { return (char *) p >= pool + sizeof (blk_t) && (char *) p < pool + pool_used; }
#endif
static void *raw_alloc (size_t size, void *site) {
#ifdef VP_ASAN_BLOCKS
  blk_t *b = malloc (sizeof (blk_t) + size + 8);
  b->prev_all = NULL; if (all_blocks) all_blocks->prev_all = b;
#else
  size_t need = (sizeof (blk_t) + size + 8 + 15) & ~(size_t) 15;
  if (pool_used + need > POOL) { fprintf (stderr, "harness: arena exhausted\n"); exit (3); }
  blk_t *b = (blk_t *) (pool + pool_used); pool_used += need;
#endif
  b->magic = HDR_MAGIC; b->size = size; b->state = 1; b->site = site; b->next_all = all_blocks; all_blocks = b;
  uint64_t t = TAIL_MAGIC; memcpy ((char *) (b + 1) + size, &t, 8);
  n_live++; live_bytes += (long) size; if (live_bytes > max_live_bytes) max_live_bytes = live_bytes;
  return b + 1;
}
static void check_tail (blk_t *b, const char *when) {
  uint64_t t; memcpy (&t, (char *) (b + 1) + b->size, 8);
  if (t != TAIL_MAGIC) { char s[128]; report ("heap-overrun-past-block-end", "block of %zu bytes allocated in %s overrun (seen at %s)", b->size, site_name (b->site, s, sizeof s), when); uint64_t f = TAIL_MAGIC; memcpy ((char *) (b + 1) + b->size, &f, 8); }
}
static void *chk_malloc (size_t size, void *ud) { (void) ud; n_alloc_calls++; void *p = raw_alloc (size, caller_site ()); memset (p, 0xcd, size); return p; }
static void *chk_calloc (size_t n, size_t size, void *ud) { (void) ud; n_calloc_calls++; void *p = raw_alloc (n * size, caller_site ()); memset (p, 0, n * size); return p; }
static void chk_free (void *p, void *ud) {
  (void) ud; n_free_calls++;
  if (p == NULL) return;
  char s[128], s2[128];
  if (!in_pool (p) || hdr_of (p)->magic != HDR_MAGIC) { report ("free-of-pointer-not-from-allocator", "free (%p) called from %s: not a block of the user's allocator", p, site_name (caller_site (), s, sizeof s)); return; }
  blk_t *b = hdr_of (p);
  if (b->state != 1) { report ("double-free", "block of %zu bytes allocated in %s freed twice (second free from %s)", b->size, site_name (b->site, s, sizeof s), site_name (caller_site (), s2, sizeof s2)); return; }
  check_tail (b, "free");
  b->state = 2; n_live--; live_bytes -= (long) b->size;
#ifdef VP_ASAN_BLOCKS
  unlink_blk (b); b->magic = 0; free (b);
#else
  memset (p, POISON, b->size);
#endif
}
static void *chk_realloc (void *p, size_t old_size, size_t new_size, void *ud) {
  (void) ud; n_realloc_calls++;
  char s[128], s2[128];
  if (p == NULL) { if (old_size != 0) report ("realloc-old-size-wrong", "realloc (NULL, old_size=%zu, %zu) from %s", old_size, new_size, site_name (caller_site (), s, sizeof s)); return raw_alloc (new_size, caller_site ()); }
  if (!in_pool (p) || hdr_of (p)->magic != HDR_MAGIC) { report ("realloc-of-pointer-not-from-allocator", "realloc (%p) from %s", p, site_name (caller_site (), s, sizeof s)); return raw_alloc (new_size, caller_site ()); }
  blk_t *b = hdr_of (p);
  if (b->state != 1) { report ("realloc-of-freed-block", "block of %zu bytes allocated in %s", b->size, site_name (b->site, s, sizeof s)); return raw_alloc (new_size, caller_site ()); }
  if (old_size != b->size) report ("realloc-old-size-wrong", "realloc reports old_size=%zu for a block of %zu bytes (allocated in %s, realloc from %s, new size %zu)", old_size, b->size, site_name (b->site, s, sizeof s), site_name (caller_site (), s2, sizeof s2), new_size);
  check_tail (b, "realloc");
  void *q = raw_alloc (new_size, caller_site ());
  size_t c = old_size < new_size ? old_size : new_size; if (c > b->size) c = b->size; /* the documented emulation: copy old_size bytes */
  memcpy (q, p, c);
  if (new_size > c) memset ((char *) q + c, 0xcd, new_size - c);
  b->state = 2; n_live--; live_bytes -= (long) b->size;
#ifdef VP_ASAN_BLOCKS
  unlink_blk (b); b->magic = 0; free (b);
#else
  memset (p, POISON, b->size);
#endif
  return q;
}
static struct MIR_alloc chk_alloc = {chk_malloc, chk_calloc, chk_realloc, chk_free, NULL};

/* ------------------------------------------------------------------ checking code allocator */
#define MAXREG 4096
typedef struct { char *p; size_t len; int writable, live; unsigned char *wp; /* per page: inside a write window? */ } reg_t;
static reg_t regs[MAXREG]; static int nregs;
static long n_map, n_unmap, n_protect_w, n_protect_x, n_code_bytes;
static reg_t *find_reg (void *p) { for (int i = 0; i < nregs; i++) if (regs[i].live && (char *) p >= regs[i].p && (char *) p < regs[i].p + regs[i].len) return &regs[i]; return NULL; }
static void *cc_map (size_t len, void *ud) {
  (void) ud; n_map++;
  long pg = sysconf (_SC_PAGESIZE); size_t l = (len + pg - 1) / pg * pg;
  char *p = mmap (NULL, l, PROT_READ | PROT_EXEC, MAP_PRIVATE | MAP_ANONYMOUS, -1, 0);
  if (p == MAP_FAILED) return NULL;
  if (nregs >= MAXREG) { fprintf (stderr, "harness: too many code regions\n"); exit (2); }
  regs[nregs].p = p; regs[nregs].len = len; regs[nregs].writable = 0; regs[nregs].live = 1; regs[nregs].wp = calloc (l / pg + 1, 1); nregs++; n_code_bytes += (long) len;
  return p;
}
static int cc_unmap (void *p, size_t len, void *ud) {
  (void) ud; n_unmap++;
  reg_t *r = find_reg (p);
  if (r == NULL) { report ("code-unmap-of-unknown-region", "mem_unmap (%p, %zu)", p, len); return -1; }
  if (r->p != (char *) p || r->len != len) report ("code-unmap-wrong-range", "mem_unmap (%p, %zu) for the region (%p, %zu)", p, len, (void *) r->p, r->len);
  long pg = sysconf (_SC_PAGESIZE); munmap (r->p, (r->len + pg - 1) / pg * pg); r->live = 0;
  return 0;
}
static int cc_protect (void *p, size_t len, MIR_mem_protect_t prot, void *ud) {
  (void) ud;
  reg_t *r = find_reg (p);
  if (prot == PROT_WRITE_EXEC) n_protect_w++; else n_protect_x++;
  if (r == NULL || (char *) p + len > r->p + ((r->len + 4095) & ~(size_t) 4095)) { report ("code-protect-outside-mapped-region", "mem_protect (%p, %zu, %d)", p, len, (int) prot); return -1; }
  long pg = sysconf (_SC_PAGESIZE);
  char *s = (char *) ((uintptr_t) p & ~(uintptr_t) (pg - 1)); size_t l = (size_t) (((char *) p + len) - s); l = (l + pg - 1) / pg * pg;
  r->writable = prot == PROT_WRITE_EXEC;
  for (size_t k = (size_t) (s - r->p) / pg; k < (size_t) (s - r->p) / pg + l / pg; k++) r->wp[k] = prot == PROT_WRITE_EXEC;
  return mprotect (s, l, prot == PROT_WRITE_EXEC ? PROT_READ | PROT_WRITE | PROT_EXEC : PROT_READ | PROT_EXEC);
}
static struct MIR_code_alloc chk_code = {cc_map, cc_unmap, cc_protect, NULL};

/* ------------------------------------------------------------------ direct libc use from library objects (alloc build only) */
#ifdef VP_REDIRECT
static long n_direct;
static void direct (const char *what, void *p) {
  char s[128]; n_direct++;
  void *site = caller_site ();
  char fp[160]; snprintf (fp, sizeof fp, "direct-libc-%s-from:%s", what, site_name (site, s, sizeof s));
  if (p != NULL && in_pool (p) && hdr_of (p)->magic == HDR_MAGIC) snprintf (fp, sizeof fp, "user-allocator-block-given-to-libc-%s-from:%s", what, s);
  report (fp, "library code calls libc %s directly", what);
}
void *vp_lib_malloc (size_t n) { direct ("malloc", NULL); return malloc (n); }
void *vp_lib_calloc (size_t n, size_t s) { direct ("calloc", NULL); return calloc (n, s); }
void *vp_lib_realloc (void *p, size_t n) { direct ("realloc", p); if (p && in_pool (p)) return malloc (n); return realloc (p, n); }
void vp_lib_free (void *p) { if (p == NULL) return; direct ("free", p); if (in_pool (p)) { if (hdr_of (p)->magic == HDR_MAGIC && hdr_of (p)->state == 1) { hdr_of (p)->state = 2; n_live--; live_bytes -= (long) hdr_of (p)->size; memset (p, POISON, hdr_of (p)->size); } return; } free (p); }
char *vp_lib_strdup (const char *s) { direct ("strdup", NULL); return strdup (s); }
void *vp_lib_mmap (void *a, size_t l, int pr, int fl, int fd, off_t o) { direct ("mmap", NULL); return mmap (a, l, pr, fl, fd, o); }
int vp_lib_munmap (void *a, size_t l) { direct ("munmap", NULL); return munmap (a, l); }
int vp_lib_mprotect (void *a, size_t l, int pr) { direct ("mprotect", NULL); return mprotect (a, l, pr); }
#endif

/* ------------------------------------------------------------------ faults: a store to code memory outside a write window */
static sigjmp_buf fault_jmp; static volatile int fault_armed;
static void segv (int sig, siginfo_t *si, void *uc) {
  (void) uc;
  reg_t *r = find_reg (si->si_addr);
  char b[300]; int n;
  if (r != NULL && !r->wp[((char *) si->si_addr - r->p) / 4096]) n = snprintf (b, sizeof b, "VIOL code-written-outside-write-window | case=%ld phase=%s: store to code region %p+%zu at %p while it is READ_EXEC\n", cur_case, phase, (void *) r->p, r->len, si->si_addr);
  else n = snprintf (b, sizeof b, "VIOL crash:signal-%d | case=%ld phase=%s fault address %p\n", sig, cur_case, phase, si->si_addr);
  if (write (1, b, (size_t) n) < 0) {}
  _exit (99);
}

/* ------------------------------------------------------------------ MIR errors: histories are error free */
static jmp_buf err_jmp; static int err_armed; static char err_msg[300];
static void err_func (MIR_error_type_t t, const char *fmt, ...) {
  va_list ap; va_start (ap, fmt); vsnprintf (err_msg, sizeof err_msg, fmt, ap); va_end (ap);
  (void) t;
  if (err_armed) longjmp (err_jmp, 1);
  fprintf (stderr, "unexpected MIR error: %s\n", err_msg); abort ();
}

/* ------------------------------------------------------------------ workload */
static uint8_t mainbuf[PG_BUF + 64];
static int64_t ext_log (int64_t tag, int64_t a, int64_t b) { return (int64_t) ((uint64_t) a * 31u + ((uint64_t) b ^ (uint64_t) tag)); }
static char *ptext; static prog_t prog;
typedef struct { char *d; size_t len, cap, pos; } mem_t;
static mem_t wmem;
static int w_byte (MIR_context_t ctx, uint8_t b) { (void) ctx; if (wmem.len == wmem.cap) { wmem.cap = wmem.cap ? wmem.cap * 2 : 4096; wmem.d = realloc (wmem.d, wmem.cap); } wmem.d[wmem.len++] = (char) b; return 1; }
static int r_byte (MIR_context_t ctx) { (void) ctx; return wmem.pos < wmem.len ? (uint8_t) wmem.d[wmem.pos++] : EOF; }
typedef struct { const char *s; size_t pos; } src_t;
static int src_getc (void *d) { src_t *s = d; return s->s[s->pos] ? (uint8_t) s->s[s->pos++] : EOF; }

static long n_shapes, n_hist, n_scan, n_c2mir, n_readwrite, n_interp, n_gen[4], n_lazy, n_lazybb, n_output, n_empty, n_ctx;

static char csrc[6000];
static void gen_c_program (vp_rng_t *r) {
  int k1 = (int) vp_range (r, 2, 99), k2 = (int) vp_range (r, 1, 9), n = (int) vp_range (r, 2, 9);
  snprintf (csrc, sizeof csrc,
            "#define K1 %d\n#define MIX(x,y) ((x)*K1 + ((y) ^ 0x55))\n#if K1 > 50\n#define SH 3\n#else\n#define SH 1\n#endif\n"
            "struct s { int a; long b; char c[%d]; };\ntypedef struct s s_t;\nenum e { E0, E1 = %d, E2 };\n"
            "static long helper (s_t *p, long x) { long r = 0; for (int i = 0; i < %d; i++) r += p->c[i] * (i + x); return r + p->a + E2; }\n"
            "static double fd (double x, int n) { double s = 0; while (n-- > 0) s += x / (n + 1); return s; }\n"
            "long tab[%d];\n"
            "long entry (long a, long b) { s_t v; long r = MIX (a, b) << SH; v.a = %d; v.b = a; for (int i = 0; i < %d; i++) { v.c[i] = (char) (i + b); tab[i] = i * a; }\n"
            "  switch (b & 3) { case 0: r += helper (&v, a); break; case 1: r -= (long) fd (1.5, %d); break; case 2: r ^= tab[%d]; break; default: r = r * %d + sizeof (s_t); }\n"
            "  return r; }\n",
            k1, n, k2, n, n, k2 * 7, n, n, n - 1, k2);
}

static void finish_all (MIR_context_t ctx, int gen_p, int c2_p) {
  phase = "finish";
  if (gen_p) MIR_gen_finish (ctx);
  if (c2_p) c2mir_finish (ctx);
  MIR_finish (ctx);
}

static void run_case (long idx) {
  vp_rng_t r = vp_case_rng (gseed, 0xc017, (uint64_t) idx);
  int kind = (int) vp_below (&r, 100);
  n_hist++;
  all_blocks = NULL; pool_used = 0; n_live = 0; live_bytes = 0; nregs = 0; n_reports = 0;
  volatile int gen_p = 0, c2_p = 0;
  phase = "init";
  MIR_context_t ctx = MIR_init2 (&chk_alloc, &chk_code); n_ctx++;
  MIR_set_error_func (ctx, err_func);
  err_armed = 1;
  if (setjmp (err_jmp)) { err_armed = 0; report ("unexpected-error-in-error-free-history", "MIR error: %s", err_msg); return; }
  if (kind < 4) { /* nothing in between, or generator init/finish twice */
    n_empty++;
    if (kind >= 2) { phase = "gen_init"; MIR_gen_init (ctx); MIR_gen_finish (ctx); MIR_gen_init (ctx); gen_p = 1; }
    if (kind == 3) { phase = "c2mir_init"; c2mir_init (ctx); c2_p = 1; }
  } else if (kind < 26) { /* c2mir */
    n_c2mir++;
    phase = "c2mir_init"; c2mir_init (ctx); c2_p = 1;
    gen_c_program (&r);
    struct c2mir_options ops; memset (&ops, 0, sizeof ops);
    struct c2mir_macro_command mc[2] = {{1, "EXTRA", "7"}, {0, "EXTRA", NULL}};
    if (vp_chance (&r, 50)) { ops.macro_commands = mc; ops.macro_commands_num = 1 + (size_t) vp_below (&r, 2); }
    ops.message_file = NULL; ops.module_num = (size_t) idx;
    src_t src = {csrc, 0};
    phase = "c2mir_compile";
    if (!c2mir_compile (ctx, &ops, src_getc, &src, "gen.c", NULL)) { report ("harness-c-program-rejected", "c2mir rejected the generated C program:\n%s", csrc); err_armed = 0; return; }
    if (vp_chance (&r, 30)) { src_t s2 = {"int second (int x) { return x * 3 + 1; }\n", 0}; ops.module_num++; c2mir_compile (ctx, &ops, src_getc, &s2, "second.c", NULL); }
    phase = "load";
    for (MIR_module_t m = DLIST_HEAD (MIR_module_t, *MIR_get_module_list (ctx)); m != NULL; m = DLIST_NEXT (MIR_module_t, m)) MIR_load_module (ctx, m);
    int how = (int) vp_below (&r, 4);
    if (how > 0) { phase = "gen_init"; MIR_gen_init (ctx); gen_p = 1; MIR_gen_set_optimize_level (ctx, (unsigned) vp_below (&r, 4)); }
    phase = "link";
    MIR_link (ctx, how == 0 ? MIR_set_interp_interface : how == 1 ? MIR_set_gen_interface : how == 2 ? MIR_set_lazy_gen_interface : MIR_set_lazy_bb_gen_interface, NULL);
    if (how == 0) n_interp++; else if (how == 2) n_lazy++; else if (how == 3) n_lazybb++;
    phase = "run";
    for (MIR_module_t m = DLIST_HEAD (MIR_module_t, *MIR_get_module_list (ctx)); m != NULL; m = DLIST_NEXT (MIR_module_t, m))
      for (MIR_item_t it = DLIST_HEAD (MIR_item_t, m->items); it != NULL; it = DLIST_NEXT (MIR_item_t, it))
        if (it->item_type == MIR_func_item && !strcmp (it->u.func->name, "entry")) { long (*f) (long, long) = it->addr; f (3, 1); f (-7, 2); f (100, 0); f (5, 3); }
  } else if (kind < 34) { /* hand-written shapes: a function of many calls (code longer than a page, every call patched in place),
                             and label reference data with two labels whose second label nothing else refers to */
    n_shapes++;
    static char txt[200000]; size_t o = 0; int nc = (int) vp_range (&r, 300, 1600), pad = (int) vp_below (&r, 6);
    o += (size_t) snprintf (txt + o, sizeof txt - o, "m1: module\npg: proto i64, i64:x\nexport f\ng: func i64, i64:x\n local i64:r\n add r, x, 1\n ret r\n endfunc\n"
                            "f: func i64, i64:x\n local i64:r, i64:t\n mov r, x\n mov t, 0\n");
    for (int k = 0; k < pad; k++) o += (size_t) snprintf (txt + o, sizeof txt - o, " add t, t, %d\n", k + 1);
    for (int k = 0; k < nc; k++) { o += (size_t) snprintf (txt + o, sizeof txt - o, " call pg, g, r, r\n"); if (vp_chance (&r, 10)) o += (size_t) snprintf (txt + o, sizeof txt - o, " add t, t, r\n"); }
    o += (size_t) snprintf (txt + o, sizeof txt - o, " ret r\n endfunc\nendmodule\n"
                            "m2: module\nexport h\nforward tab\nh: func i64, i64:x\n local i64:r, i64:a, i64:d\n mov a, tab\n mov d, i64:8(a)\n mov r, i64:(a)\n add r, r, d\n bf LX, x\nLB:\n mov r, 1\nLC:\n ret 33\nLX:\n jmpi r\nLA:\n mov r, 1\nLD:\n ret 22\n endfunc\n"
                            "tab: lref LA\n lref LC, LB, %d\nendmodule\n", 0); /* LA + (LC - LB) == LD: the two moves have the same size; LB is referred to only as a second label */
    phase = "scan"; MIR_scan_string (ctx, txt);
    phase = "load";
    for (MIR_module_t m = DLIST_HEAD (MIR_module_t, *MIR_get_module_list (ctx)); m != NULL; m = DLIST_NEXT (MIR_module_t, m)) MIR_load_module (ctx, m);
    int how = (int) vp_below (&r, 4);
    if (how > 0) { phase = "gen_init"; MIR_gen_init (ctx); gen_p = 1; int level = (int) vp_below (&r, 2); MIR_gen_set_optimize_level (ctx, (unsigned) level); n_gen[level]++; }
    phase = "link";
    MIR_link (ctx, how == 0 ? MIR_set_interp_interface : how == 1 ? MIR_set_gen_interface : how == 2 ? MIR_set_lazy_gen_interface : MIR_set_lazy_bb_gen_interface, NULL);
    if (how == 0) n_interp++; else if (how == 2) n_lazy++; else if (how == 3) n_lazybb++;
    phase = "run";
    for (MIR_module_t m = DLIST_HEAD (MIR_module_t, *MIR_get_module_list (ctx)); m != NULL; m = DLIST_NEXT (MIR_module_t, m))
      for (MIR_item_t it = DLIST_HEAD (MIR_item_t, m->items); it != NULL; it = DLIST_NEXT (MIR_item_t, it)) {
        if (it->item_type != MIR_func_item) continue;
        if (!strcmp (it->u.func->name, "f")) { int64_t v = ((int64_t (*) (int64_t)) it->addr) (1); if (v != 1 + nc) report ("harness-shape-result", "f (1) = %lld, expected %d", (long long) v, 1 + nc); }
        if (!strcmp (it->u.func->name, "h") && how != 3) { int64_t v = ((int64_t (*) (int64_t)) it->addr) (0); if (v != 22) report ("harness-shape-result", "h (0) = %lld, expected 22 (jmpi to LA + (LC - LB) == LD)", (long long) v); }
      }
  } else { /* MIR text program */
    n_scan++;
    unsigned feat = PF_NO_LREF | PF_NO_JMPI; if (vp_chance (&r, 30)) feat |= PF_NO_FP; if (vp_chance (&r, 20)) feat |= PF_CONST_INIT;
    pg_gen_prog (&prog, gseed, idx, feat, 3);
    { MIR_context_t c0 = NULL; free (ptext); ptext = pg_print (c0, &prog); }
    phase = "scan"; MIR_scan_string (ctx, ptext);
    if (vp_chance (&r, 35)) { /* binary round trip into a second context with its own (same) allocators */
      n_readwrite++;
      phase = "write"; wmem.len = wmem.pos = 0; MIR_write_with_func (ctx, w_byte);
      phase = "finish"; MIR_finish (ctx);
      phase = "init"; ctx = MIR_init2 (&chk_alloc, &chk_code); n_ctx++; MIR_set_error_func (ctx, err_func);
      phase = "read"; MIR_read_with_func (ctx, r_byte);
    }
    if (vp_chance (&r, 30)) { phase = "output"; FILE *nf = fopen ("/dev/null", "w"); MIR_output (ctx, nf); fclose (nf); n_output++; }
    phase = "load";
    for (MIR_module_t m = DLIST_HEAD (MIR_module_t, *MIR_get_module_list (ctx)); m != NULL; m = DLIST_NEXT (MIR_module_t, m)) MIR_load_module (ctx, m);
    MIR_load_external (ctx, "ext_log", ext_log);
    int how = (int) vp_below (&r, 5);
    int level = (int) vp_below (&r, 4);
    if (how > 0) { phase = "gen_init"; MIR_gen_init (ctx); gen_p = 1; MIR_gen_set_optimize_level (ctx, (unsigned) level); n_gen[level]++; }
    phase = "link";
    MIR_link (ctx, how == 0 ? MIR_set_interp_interface : how == 1 || how == 4 ? MIR_set_gen_interface : how == 2 ? MIR_set_lazy_gen_interface : MIR_set_lazy_bb_gen_interface, NULL);
    if (how == 0) n_interp++; else if (how == 2) n_lazy++; else if (how == 3) n_lazybb++;
    char en[16]; snprintf (en, sizeof en, "fn%d", prog.nf - 1);
    MIR_item_t entry = NULL, gd = NULL;
    for (MIR_module_t m = DLIST_HEAD (MIR_module_t, *MIR_get_module_list (ctx)); m != NULL; m = DLIST_NEXT (MIR_module_t, m))
      for (MIR_item_t it = DLIST_HEAD (MIR_item_t, m->items); it != NULL; it = DLIST_NEXT (MIR_item_t, it)) {
        if (it->item_type == MIR_func_item && !strcmp (it->u.func->name, en)) entry = it;
        if (it->item_type == MIR_data_item && it->u.data->name != NULL && !strcmp (it->u.data->name, "gdata")) gd = it;
      }
    phase = "run";
    /* the reference model bounds the run time of the program (steps): programs it cannot bound are not executed */
    static rm_log_t rlog[RM_MAXLOG]; int runnable = 1;
    for (int in = 0; in < 2 && runnable; in++) {
      rm_t rm; memset (&rm, 0, sizeof rm); static uint8_t b1[PG_BUF], b2[PG_BUF];
      memset (b1, 7, PG_BUF); memcpy (b2, prog.data_init, PG_BUF); rm.p = &prog; rm.buf = b1; rm.gdata = b2; rm.log = rlog;
      int64_t ia[PG_MAXARGS] = {0, in ? 42 : 0, in ? -5 : 0}; double da[PG_MAXARGS] = {0}; uint8_t *pa[PG_MAXARGS] = {b1}; int64_t ri; double rd;
      rm_call (&rm, prog.nf - 1, ia, da, pa, &ri, &rd, 0);
      if (rm.overflow || rm_oob) { runnable = 0; rm_oob = 0; }
    }
    if (entry != NULL && gd != NULL && runnable)
      for (int in = 0; in < 2; in++) {
        memset (mainbuf, 7, PG_BUF); memcpy (gd->addr, prog.data_init, PG_BUF);
        if (how == 0 && vp_chance (&r, 50)) { MIR_val_t rv, v[3]; v[0].a = mainbuf; v[1].i = in ? 42 : 0; v[2].i = in ? -5 : 0; MIR_interp_arr (ctx, entry, &rv, 3, v); }
        else ((int64_t (*) (void *, int64_t, int64_t)) entry->addr) (mainbuf, in ? 42 : 0, in ? -5 : 0);
      }
  }
  finish_all (ctx, gen_p, c2_p);
  err_armed = 0;
  vp_dist (vp_hash_mix ((uint64_t) kind / 4 * 1000003u + (uint64_t) gen_p * 7 + (uint64_t) c2_p, (uint64_t) (n_alloc_calls + n_realloc_calls) % 100003));
  /* ---- end of history: the ledger must be empty */
  phase = "after-finish";
  long leaks = 0; char s[128];
  for (blk_t *b = all_blocks; b != NULL; b = b->next_all) {
    if (b->state == 1) { if (leaks++ < 6) { char fp[200]; snprintf (fp, sizeof fp, "block-not-released-at-finish:allocated-in:%s", site_name (b->site, s, sizeof s)); report (fp, "%zu bytes still allocated after the finish calls", b->size); } }
    else { /* freed: poison intact? */
      unsigned char *p = (unsigned char *) (b + 1); size_t k;
      for (k = 0; k < b->size && p[k] == POISON; k++) ;
      if (k < b->size) { char fp[200]; snprintf (fp, sizeof fp, "write-after-free:block-allocated-in:%s", site_name (b->site, s, sizeof s)); report (fp, "byte %zu of a freed block of %zu bytes was written after the free", k, b->size); }
    }
  }
  for (int i = 0; i < nregs; i++) if (regs[i].live) { report ("code-region-not-unmapped-at-finish", "region of %zu bytes still mapped", regs[i].len); long pg = sysconf (_SC_PAGESIZE); munmap (regs[i].p, (regs[i].len + pg - 1) / pg * pg); regs[i].live = 0; }
  if (pool_used > ((size_t) 64 << 20)) madvise (pool, pool_used, MADV_DONTNEED);
}

int main (int argc, char **argv) {
  vp_args_t a = vp_parse_args (argc, argv);
  gseed = a.seed;
  load_syms ();
  pool = mmap (NULL, POOL, PROT_READ | PROT_WRITE, MAP_PRIVATE | MAP_ANONYMOUS | MAP_NORESERVE, -1, 0);
  if (pool == MAP_FAILED) { perror ("pool"); return 2; }
  struct sigaction sa; memset (&sa, 0, sizeof sa); sa.sa_sigaction = segv; sa.sa_flags = SA_SIGINFO; sigaction (SIGSEGV, &sa, NULL); sigaction (SIGBUS, &sa, NULL);
  long done = 0;
  for (long c = a.start; c < a.start + a.count; c++) { cur_case = c; vp_case_begin (c); alarm (300); run_case (c); done++; fflush (stdout); }
  alarm (0);
  if (a.start == 0) vp_sample ("last history of shard 0: phases init..finish; ledger: %ld malloc %ld calloc %ld realloc %ld free calls, %ld code regions mapped and unmapped, %ld write windows", n_alloc_calls, n_calloc_calls, n_realloc_calls, n_free_calls, n_map, n_protect_w);
  printf ("EV histories %ld\nEV contexts %ld\nEV malloc_calls %ld\nEV calloc_calls %ld\nEV realloc_calls %ld\nEV free_calls %ld\nEV code_maps %ld\nEV code_unmaps %ld\nEV write_windows_opened %ld\nEV write_windows_closed %ld\n"
          "EV shape_histories %ld\nEV c2mir_histories %ld\nEV text_histories %ld\nEV binary_roundtrips %ld\nEV interp_links %ld\nEV gen_O0 %ld\nEV gen_O1 %ld\nEV gen_O2 %ld\nEV gen_O3 %ld\nEV lazy_links %ld\nEV lazy_bb_links %ld\nEV outputs %ld\nEV empty_histories %ld\n",
          done, n_ctx, n_alloc_calls, n_calloc_calls, n_realloc_calls, n_free_calls, n_map, n_unmap, n_protect_w, n_protect_x, n_shapes, n_c2mir, n_scan, n_readwrite, n_interp, n_gen[0], n_gen[1], n_gen[2], n_gen[3], n_lazy, n_lazybb, n_output, n_empty);
  printf ("MAX peak_live_bytes %ld\n", max_live_bytes);
#ifdef VP_REDIRECT
  printf ("EV direct_libc_calls_seen %ld\n", n_direct);
#endif
  return 0;
}
