"""C07: C programs compiled by c2mir behave as under the reference C compiler (differential: c2m engines vs gcc)."""
import os
import random
import re
import subprocess
import tempfile
from concurrent.futures import ThreadPoolExecutor
from vlib import build, common

RULE = ("one case = one generated UB-free C11 program: globals of every integer type, _Bool, float/double, arrays, a struct with bit-fields and a nested "
        "struct, an enum; 3-6 functions with mixed-type parameters and results (incl. struct by value and pointers) whose bodies are typed random "
        "expression trees (integer promotions, usual arithmetic conversions between every pair of types, mixed signed/unsigned comparisons, casts, "
        "shifts with masked counts, guarded division, ?:, &&, ||, comma, compound assignment, ++/--, bit-field reads and writes, array/pointer "
        "accesses with masked indexes, struct copies), for/while/do loops with constant bounds, if/else, switch with constant-expression case labels, "
        "bounded recursion; every constant expression is also used where it must be folded at compile time (static initialisers, enum values, array "
        "sizes, case labels) and printed; sizeof of mixed-type expressions is printed (result type of the conversions). The program prints ~40-120 "
        "values and returns a checksum as exit status. Oracle: gcc -O0 -fwrapv output and exit status; engines: c2m -ei, -eg -O0, -eg -O2, -eg -O3, "
        "-el, -eb (ASan/UBSan/assert build of c2m). Signed arithmetic that could overflow is routed through unsigned arithmetic of the same "
        "width, so no program depends on undefined or unspecified behaviour. distinct = distinct program shapes")

ITYPES = [("signed char", 8, True), ("unsigned char", 8, False), ("short", 16, True), ("unsigned short", 16, False), ("int", 32, True), ("unsigned", 32, False),
          ("long", 64, True), ("unsigned long", 64, False), ("long long", 64, True), ("unsigned long long", 64, False), ("char", 8, True), ("_Bool", 1, False)]
LITS = ["0", "1", "2", "3", "7", "10", "100", "127", "128", "255", "256", "1000", "32767", "32768", "65535", "65536", "2147483647", "2147483648u", "4294967295u", "-1", "-2", "-128",
        "-32768", "0x7fffffffffffffffLL", "0xffffffffffffffffULL", "1L", "-1L", "3u", "5ul", "9LL", "'a'", "'\\0'", "(char) 200", "(short) -3", "(unsigned char) 250", "1ull << 40"]


class Gen:
    def __init__(self, rng):
        self.r = rng
        self.globals = []   # (name, type index)
        self.nfun = 0
        self.shape = []

    def lit(self):
        return self.r.choice(LITS)

    def leaf(self, const, locs):
        r = self.r
        if const or r.random() < 0.3:
            return "(" + self.lit() + ")"
        k = r.random()
        if locs and k < 0.35:
            return r.choice(locs)
        if k < 0.65:
            return r.choice(self.globals)[0]
        if k < 0.78:
            return "ga[(unsigned) (%s) %% 7]" % r.choice([g[0] for g in self.globals])
        if k < 0.88:
            return self.member_read(r.choice(["gs.", "gs.", "(&gs)->"]))
        if k < 0.92:
            return r.choice(["gu.w", "gu.v[1]", "gu.h[2]", "gu.c[5]", "(+gu.bf.lo)", "((unsigned long long) gu.bf.hi)", "gu.sh.p", "(+gu.sh.q)"])
        return "(*gp)"

    BF_T = [("int", 32), ("unsigned", 32), ("long", 64), ("unsigned long", 64), ("short", 16), ("unsigned short", 16), ("signed char", 8), ("unsigned char", 8),
            ("long long", 64), ("unsigned long long", 64), ("_Bool", 1), ("char", 8)]

    def gen_struct(self):
        """struct S: bit-fields of every type and width packed next to ordinary members (storage units of bit-fields overlap their neighbours)"""
        r = self.r
        self.members = []   # (name, declared type, width or None)
        decl = []
        for i in range(r.randint(4, 9)):
            if r.random() < 0.6:
                t, b = r.choice(self.BF_T)
                w = r.randint(1, b)
                decl.append("%s m%d : %d;" % (t, i, w))
                self.members.append(("m%d" % i, t, w))
                if r.random() < 0.08:
                    decl.append("%s : %d;" % (t, r.choice([0, 0, r.randint(1, b)])))
            else:
                t = r.choice(ITYPES)[0]
                decl.append("%s m%d;" % (t, i))
                self.members.append(("m%d" % i, t, None))
        self.shape.append(("S", tuple((t, w) for _, t, w in self.members)))
        init = ", ".join(self.lit() for _ in self.members)
        return "struct in { short x; unsigned long y; }; struct S { %s struct in in; } gs = {%s, {-7, 9}};" % (" ".join(decl), init)

    def member_read(self, base):
        """an rvalue of a member: a bit-field wider than int is converted to its declared type first (gcc computes in the bit-field's own width)"""
        r = self.r
        if r.random() < 0.15:
            return base + r.choice(["in.x", "in.y"])
        n, t, w = r.choice(self.members)
        if w is not None and w >= 32:
            return "((%s) %s%s)" % (t, base, n)
        return "(+%s%s)" % (base, n)

    def member_lv(self, base):
        return base + self.r.choice(self.members)[0]

    def member_update(self, base, e):
        """a compound assignment or ++/-- of a member that cannot overflow a signed type: arithmetic only where the promoted operation is done in a wider or an
        unsigned type, shifts only on unsigned members"""
        r = self.r
        n, t, w = r.choice(self.members)
        bits = w if w is not None else dict((x[0], x[1]) for x in ITYPES)[t]
        uns = t.startswith("unsigned") or t == "_Bool"
        ops = ["^=", "|=", "&="]
        if uns or bits < 31:
            ops += ["+=", "-=", "++", "--"]
        if uns and t != "_Bool":
            ops += [">>="] + (["<<="] if bits <= 16 or bits >= 32 else [])
        op = r.choice(ops)
        if op in ("++", "--"):
            return "%s%s%s;" % (base, n, op) if r.random() < 0.5 else "%s%s%s;" % (op, base, n)
        return "%s%s %s (%s & 7);" % (base, n, op, e)

    def expr(self, depth, const=False, locs=()):
        r = self.r
        if depth <= 0 or r.random() < 0.22:
            return self.leaf(const, locs)
        k = r.random()
        a = self.expr(depth - 1, const, locs)
        b = self.expr(depth - 1, const, locs)
        if k < 0.18:
            # arithmetic on operands narrowed to types whose promoted result cannot overflow
            t1, t2 = r.choice(ITYPES[:4] + ITYPES[10:]), r.choice(ITYPES[:4] + ITYPES[10:])
            op = r.choice(["+", "-", "*"])
            if op == "*" and t1[0] == "unsigned short" and t2[0] == "unsigned short":
                t2 = ITYPES[2]   # 65535 * 65535 overflows int
            return "((%s) %s %s (%s) %s)" % (t1[0], a, op, t2[0], b)
        if k < 0.32:
            t = r.choice([ITYPES[5], ITYPES[7], ITYPES[9]])  # unsigned arithmetic wraps
            if r.random() < 0.5:   # both operands converted: a wider signed operand would make the arithmetic signed
                return "((%s) %s %s (%s) %s)" % (t[0], a, r.choice(["+", "-", "*", "&", "|", "^"]), r.choice([t[0], t[0], "unsigned char", "unsigned short", "_Bool"]), b)
            return "(%s %s (%s) %s)" % (a, r.choice(["&", "|", "^"]), t[0], b)
        if k < 0.42:
            return "SADD (%s, %s)" % (a, b) if r.random() < 0.5 else "SMUL (%s, %s)" % (a, b)
        if k < 0.58:
            return "(%s %s %s)" % (a, r.choice(["<", ">", "<=", ">=", "==", "!="]), b)   # mixed signed/unsigned comparisons are defined
        if k < 0.64:
            op = r.choice(["<<", ">>"])  # a narrow unsigned operand is promoted to int: it is only shifted right
            return "((%s) %s %s (%s & %d))" % (r.choice(["unsigned", "unsigned long", "unsigned long long"] + (["unsigned char", "unsigned short"] if op == ">>" else [])), a, op, b, r.choice([7, 15, 31]))
        if k < 0.68:
            return "((long long) %s >> (%s & 31))" % (a, b)
        if k < 0.74:
            return "UDIV (%s, %s)" % (a, b) if r.random() < 0.5 else "UMOD (%s, %s)" % (a, b)
        if k < 0.80:
            return "(%s ? %s : %s)" % (a, b, self.expr(depth - 1, const, locs))
        if k < 0.86:
            return "(%s %s %s)" % (a, r.choice(["&&", "||"]), b)
        if k < 0.92:
            t = r.choice(ITYPES)
            return "((%s) %s)" % (t[0], a)
        if k < 0.96:
            return "(%s%s)" % (r.choice(["~", "!", "-(long long) (int) ", "+"]), a)
        return "(%s, %s)" % (a, b) if not const else "(%s + 0 * %s)" % (a, "1")

    def program(self):
        r = self.r
        L = ["#include <stdio.h>", "#include <string.h>",
             "#define SADD(a, b) ((long long) ((unsigned long long) (a) + (unsigned long long) (b)))",
             "#define SMUL(a, b) ((long long) ((unsigned long long) (a) * (unsigned long long) (b)))",
             "#define UDIV(a, b) ((unsigned long long) (b) == 0 ? (unsigned long long) (a) : (unsigned long long) (a) / (unsigned long long) (b))",
             "#define UMOD(a, b) ((unsigned long long) (b) == 0 ? (unsigned long long) (a) : (unsigned long long) (a) % (unsigned long long) (b))",
             "static unsigned long long chk; static void out (const char *n, long long v) { printf (\"%s %lld\\n\", n, v); chk = chk * 31 + (unsigned long long) v; }",
             "static void outu (const char *n, unsigned long long v) { printf (\"%s %llu\\n\", n, v); chk = chk * 31 + v; }",
             "static void outd (const char *n, double v) { printf (\"%s %.17g\\n\", n, v); }"]
        ng = r.randint(5, 9)
        for i in range(ng):
            t = r.choice(ITYPES)
            self.globals.append(("g%d" % i, t))
            L.append("%s g%d = %s;" % (t[0], i, "(%s) %s" % (t[0], self.lit())))
        L.append("long long ga[7] = {%s};" % ", ".join(self.lit() for _ in range(7)))
        L.append(self.gen_struct())
        L.append("union U { unsigned long long w; unsigned v[2]; unsigned short h[4]; unsigned char c[8]; struct { unsigned lo : 20; unsigned long long hi : 44; } bf; "
                 "struct { signed char p; int q : 24; } sh; } gu = {0x123456789abcdef0ull};")
        L.append("long long *gp = &ga[2]; double gd = 2.5; float gf = 1.25f;")  # same type as the array: c2mir uses type-based alias information
        # compile-time folding: the same constant expressions in folded and in run-time positions
        consts = [self.expr(3, const=True) for _ in range(r.randint(4, 8))]
        for i, c in enumerate(consts):
            L.append("static const long long k%d = %s;" % (i, c))
            L.append("enum { E%d = (int) (%s) };" % (i, c))
            L.append("char arr%d[(unsigned) (%s) %% 13 + 1];" % (i, c))
        self.shape.append(("consts", len(consts)))
        # functions
        nf = r.randint(3, 6)
        for fi in range(nf):
            np_ = r.randint(0, 5)
            ptypes = [r.choice(ITYPES) for _ in range(np_)]
            rt = r.choice(ITYPES[:10])
            locs = ["p%d" % i for i in range(np_)] + ["l0", "l1", "l2"]
            params = ", ".join("%s p%d" % (t[0], i) for i, t in enumerate(ptypes)) or "void"
            body = ["  %s l0 = %s; %s l1 = %s; %s l2 = 0;" % (r.choice(ITYPES)[0], self.expr(2, locs=locs[:np_]), r.choice(ITYPES)[0], self.expr(2, locs=locs[:np_]), r.choice(ITYPES[4:10])[0])]
            for s in range(r.randint(2, 6)):
                k = r.random()
                if k < 0.25:
                    li, op = r.randint(0, 2), r.choice(["=", "+=", "-=", "^=", "|=", "&="])
                    if op in ("+=", "-="):   # signed addition must not overflow
                        body.append("  l%d = SADD (l%d, %s(long long) (%s));" % (li, li, "-" if op == "-=" and False else "", self.expr(3, locs=locs)))
                    else:
                        body.append("  l%d %s %s;" % (li, op, self.expr(3, locs=locs)))
                elif k < 0.40:
                    body.append("  for (int i = 0; i < %d; i++) { l2 = SADD (l2 ^ (%s), i); ga[i %% 7] = SADD (ga[i %% 7], (unsigned char) l2); }" % (r.randint(1, 9), self.expr(2, locs=locs)))
                elif k < 0.52:
                    body.append("  if (%s) { l0 = %s; } else { l1 = %s; %s = %s; }" % (self.expr(2, locs=locs), self.expr(2, locs=locs), self.expr(2, locs=locs), self.member_lv("gs."), self.expr(2, locs=locs)))
                elif k < 0.64:
                    ci = r.sample(range(len(consts)), min(3, len(consts)))
                    cases = " ".join("case (unsigned char) (%s) + %d: l2 = SADD (l2, %d); %s" % (consts[c], 300 * j, j + 1, "break;" if r.random() < 0.7 else "") for j, c in enumerate(ci))
                    body.append("  switch ((%s) & 1023) { %s default: l2 = SADD (l2, -1); }" % (self.expr(2, locs=locs), cases))
                elif k < 0.76:
                    kk = r.random()
                    if kk < 0.2:
                        body.append("  { struct S t = gs; %s = %s; %s = %s; t.in.x++; %s ^= (unsigned char) (%s + %s); if (t.in.x & 1) gs = t; }"
                                    % (self.member_lv("t."), self.expr(2, locs=locs), self.member_lv("t."), self.expr(2, locs=locs), self.member_lv("gs."),
                                       self.member_read("t."), self.member_read("t.")))
                    elif kk < 0.45:
                        # automatic objects with (partial, designated) brace initialisers: the members without initialiser are zero
                        k1 = r.randint(0, len(self.members))
                        init = ", ".join(self.expr(1, locs=locs) for _ in range(k1)) or "0"
                        des = r.sample(self.members, min(len(self.members), r.randint(1, 3)))
                        dinit = ", ".join(".%s = %s" % (m[0], self.expr(1, locs=locs)) for m in des)
                        body.append("  { struct S t = {%s}, u = {%s}; struct S v[2] = {{%s}, [1].%s = %s}; l%d ^= %s; l%d = SADD (l%d, %s); l%d ^= %s; %s = %s; }"
                                    % (init, dinit, self.lit(), r.choice(self.members)[0], self.expr(1, locs=locs), r.randint(0, 2), " ^ ".join("(long long) t.%s" % m[0] for m in self.members),
                                       r.randint(0, 2), r.randint(0, 2), " ^ ".join("(long long) u.%s" % m[0] for m in self.members) + " ^ u.in.x ^ (long long) u.in.y",
                                       r.randint(0, 2), " ^ ".join("(long long) v[%d].%s" % (r.randint(0, 1), m[0]) for m in self.members), self.member_lv("gs."), self.member_read("t.")))
                    elif kk < 0.7:
                        # the same object through its name and through a pointer, members written and read back in sequence
                        st = []
                        for _ in range(r.randint(2, 5)):
                            b1, b2 = r.choice(["gs.", "ps->"]), r.choice(["gs.", "ps->"])
                            q = r.random()
                            if q < 0.5:
                                st.append("%s = %s;" % (self.member_lv(b1), self.expr(1, locs=locs)))
                            elif q < 0.8:
                                st.append(self.member_update(b1, self.expr(1, locs=locs)))
                            else:
                                st.append("l%d ^= %s;" % (r.randint(0, 2), self.member_read(b2)))
                            li = r.randint(0, 2)
                            st.append("l%d = SADD (l%d, %s);" % (li, li, self.member_read(b2)))
                        body.append("  { struct S *ps = &gs; %s }" % " ".join(st))
                    else:
                        st = []
                        for _ in range(r.randint(2, 4)):
                            w = r.choice(["gu.w", "gu.v[0]", "gu.v[1]", "gu.h[1]", "gu.h[3]", "gu.c[2]", "gu.c[7]", "gu.bf.lo", "gu.bf.hi", "gu.sh.p", "gu.sh.q", "pu->w", "pu->bf.hi", "pu->h[0]"])
                            rd = r.choice(["gu.w", "gu.v[0]", "gu.v[1]", "gu.h[1]", "gu.h[3]", "gu.c[2]", "gu.c[7]", "(+gu.bf.lo)", "((unsigned long long) gu.bf.hi)", "gu.sh.p", "(+gu.sh.q)", "pu->w", "pu->c[0]"])
                            st.append("%s = %s; l%d ^= %s;" % (w, self.expr(1, locs=locs), r.randint(0, 2), rd))
                        body.append("  { union U *pu = &gu; %s }" % " ".join(st))
                elif k < 0.80:
                    body.append("  { int n = %d; do { l1 = (l1 >> 1) ^ (%s); } while (--n > 0); }" % (r.randint(1, 5), self.expr(2, locs=locs)))
                elif k < 0.88 and fi > 0:
                    cf = r.randint(0, fi - 1)
                    body.append("  l0 ^= f%d (%s);" % (cf, ", ".join(self.expr(2, locs=locs) for _ in range(self.sig[cf]))))
                elif k < 0.94:
                    body.append("  gd = gd * 0.5 + (double) (int) (signed char) (%s); gf = (float) ((long) gd %% 64) + 0.25f; l2 = SADD (l2, gd > gf);" % self.expr(2, locs=locs))
                else:
                    gi = r.choice([i for i in range(ng) if self.globals[i][1][1] < 32 or not self.globals[i][1][2]] or [None])   # ++/-- only where it cannot overflow a signed type
                    body.append("  l2 = SADD (l2, %s1);%s" % (r.choice(["", "-"]), " %sg%d%s;" % ((r.choice(["++", "--"]), gi, "") if r.random() < 0.5 else ("", gi, r.choice(["++", "--"]))) if gi is not None else ""))
            body.append("  return (%s) (%s);" % (rt[0], self.expr(3, locs=locs)))
            if not hasattr(self, "sig"):
                self.sig = []
            self.sig.append(np_)
            L.append("%s f%d (%s) {\n%s\n}" % (rt[0], fi, params, "\n".join(body)))
            self.shape.append((rt[0], tuple(t[0] for t in ptypes), len(body)))
        # _Bool and char globals must not be ++/-- past their range in ways that differ? (++ on _Bool is defined: becomes 1; -- toggles) fine
        M = ["int main (void) {"]
        for i, c in enumerate(consts):
            M.append("  out (\"k%d\", k%d); out (\"E%d\", E%d); out (\"sz%d\", (long long) sizeof (arr%d)); out (\"rt%d\", (long long) (%s));" % (i, i, i, i, i, i, i, c))
        for i in range(r.randint(4, 8)):
            e = self.expr(3)
            M.append("  out (\"x%d\", (long long) (%s)); outu (\"s%d\", sizeof (%s));" % (i, e, i, e))
        for fi in range(nf):
            for rep in range(2):
                M.append("  out (\"f%d_%d\", (long long) f%d (%s));" % (fi, rep, fi, ", ".join(self.expr(2) for _ in range(self.sig[fi]))))
        for i in range(ng):
            M.append("  out (\"g%d\", (long long) g%d);" % (i, i))
        for n, t, w in self.members:
            M.append("  out (\"gs.%s\", (long long) gs.%s);" % (n, n))
        M.append("  for (int i = 0; i < 7; i++) out (\"ga\", ga[i]); out (\"gs\", gs.in.x + (long long) gs.in.y); outu (\"gu\", gu.w); outd (\"gd\", gd); outd (\"gf\", gf);")
        M.append("  return (int) (chk % 251); }")
        return "\n".join(L + M) + "\n", hash(tuple(self.shape)) & 0xffffffffffff


# Fixed probes for defects this check found and that were repaired (known_findings.json, status fixed): they report again if one returns
PROBES = {
    "bool-conversion-truncates": "(long long) (_Bool) 256 + 2 * (long long) (_Bool) 0.5",
    "char-constant-has-type-char": "(long long) sizeof ('a')",
    "wide-bit-field-static-initializer": "(long long) pb.c",
    "bool-bit-field-assignment": "(pb2.b = 256, (long long) pb2.b) + 2 * (long long) pb3.b",
    "static-init-of-bit-fields-sharing-bytes": "(long long) pb4.b * 1000 + pb4.c",
}
PROBE_SRC = ("#include <stdio.h>\nstruct PB { int a : 5; unsigned b : 11; long c : 33; } pb = {-3, 1000, -5};\nstruct PB2 { _Bool b : 1; } pb2;\nstruct PB3 { char a : 4; _Bool b : 1; } pb3 = {1, -32768};\nstruct PB4 { long b : 40; int c : 10; } pb4 = {7, 9};\nint main (void) {\n"
             + "".join("  printf (\"%s %%lld\\n\", %s);\n" % (k, v) for k, v in PROBES.items()) + "  return 0; }\n")

ENGINES = [("-ei",), ("-eg", "-O0"), ("-eg", "-O2"), ("-eg", "-O3"), ("-el",), ("-eb",)]


def run_cmd(cmd, env=None, timeout=120):
    try:
        r = subprocess.run(cmd, stdout=subprocess.PIPE, stderr=subprocess.PIPE, text=True, errors="replace", timeout=timeout, env=env)
        return r.returncode, r.stdout, r.stderr
    except subprocess.TimeoutExpired:
        return -999, "", "timeout"


def one_case(args):
    c2m, seed, idx, tmp = args
    rng = random.Random((seed << 32) ^ (idx * 7919))
    g = Gen(rng)
    src, shape = g.program()
    d = os.path.join(tmp, "c%d" % idx)
    os.makedirs(d, exist_ok=True)
    env = dict(os.environ, ASAN_OPTIONS="detect_leaks=0:abort_on_error=1")
    out = []
    try:
        p = os.path.join(d, "p.c")
        open(p, "w").write(src)
        rc, _, err = run_cmd(["gcc", "-std=c11", "-O0", "-fwrapv", "-w", p, "-o", os.path.join(d, "ref")])
        if rc != 0:
            return [("discard", "reference-compiler-rejects", shape, err[-300:])]
        # a second opinion on definedness: the program must behave the same at -O2 and under UBSan
        rc2, _, err2 = run_cmd(["gcc", "-std=c11", "-O2", "-w", "-fsanitize=undefined", "-fno-sanitize-recover=all", p, "-o", os.path.join(d, "ref2")])
        rrc, ref, _ = run_cmd([os.path.join(d, "ref")])
        if rc2 == 0:
            rrc2, ref2, e2 = run_cmd([os.path.join(d, "ref2")])
            if rrc2 != rrc or ref2 != ref:
                return [("discard", "program-not-well-defined-for-the-reference-compiler", shape, e2[-200:])]
        for eng in ENGINES:
            en = "".join(eng).strip("-")
            ecls = "interp" if en == "ei" else "lazy" if en in ("el", "eb") else "gen"
            rc, got, err = run_cmd([c2m] + list(eng[1:]) + [p, eng[0]], env=env)   # options after -e* are arguments of the executed program
            if rc < 0 or (rc != rrc and got == ""):
                summ = common.san_summary(err)
                first = re.sub(r"\S*p\.c:\d+:\d+:", "", (err.strip().splitlines() or ["?"])[0])
                kind = ("c2m-crash:%s:%s" % (ecls, summ or common._sig_name(rc))) if (summ or rc < 0) else "c2m-rejects-valid-program:" + re.sub(r"[^A-Za-z]+", "-", re.sub(r"\b\w*\d\w*\b", "", first)).strip("-")[:60]
                out.append(("viol", kind, shape, "case %d %s exit %d\n%s\n--- source\n%s" % (idx, en, rc, err[-1500:], src)))
                if not (summ or rc < 0):
                    break
                continue
            if got != ref or rc != rrc:
                la, lb = got.splitlines(), ref.splitlines()
                x = y = None
                for i in range(max(len(la), len(lb))):
                    x = la[i] if i < len(la) else "<missing>"
                    y = lb[i] if i < len(lb) else "<missing>"
                    if x != y:
                        break
                tag = (x if x != "<missing>" else y or "?").split(" ")[0]
                cls = ("compile-time-constant" if re.match(r"(k|E|sz)\d", tag) else "constant-expression-at-run-time" if tag.startswith("rt") else "sizeof-of-expression" if re.match(r"s\d", tag)
                       else "expression" if tag.startswith("x") else "function-result" if tag.startswith("f") else "fp" if tag in ("gd", "gf") else "state")
                if got == ref:
                    cls = "exit-status"
                out.append(("viol", "output-differs:%s:%s" % (cls, ecls), shape, "case %d %s (seed %d): exit %d vs %d\n c2m: %s\n gcc: %s\n--- source\n%s" % (idx, en, seed, rc, rrc, x, y, src)))
            else:
                out.append(("ok", en, shape, ref.count("\n")))
    finally:
        subprocess.run(["rm", "-rf", d])
    return out


def run(tier):
    res = common.Result("C07")
    th = tier == "thorough"
    seed = int(common.seed())
    c2m = os.path.join(build.build_lib("asan"), "c2m")
    n = 5000 if th else 400
    tmp = tempfile.mkdtemp(prefix="vp-c07-")
    try:
        pp = os.path.join(tmp, "probe.c")
        open(pp, "w").write(PROBE_SRC)
        run_cmd(["gcc", "-std=c11", "-w", pp, "-o", os.path.join(tmp, "probe_ref")])
        _, pref, _ = run_cmd([os.path.join(tmp, "probe_ref")])
        _, pgot, perr = run_cmd([c2m, pp, "-ei"], env=dict(os.environ, ASAN_OPTIONS="detect_leaks=0"))
        ref_l, got_l = dict(l.split(" ", 1) for l in pref.splitlines()), dict(l.split(" ", 1) for l in pgot.splitlines() if " " in l)
        for k in PROBES:
            res.counters["known_defect_probes"] = res.counters.get("known_defect_probes", 0) + 1
            if got_l.get(k) != ref_l.get(k):
                res.add_viol("regression-probe:%s" % k, "probe expression %s: c2m -ei gives %s, gcc gives %s\n%s" % (PROBES[k], got_l.get(k), ref_l.get(k), PROBE_SRC), cmd="./run C07")
        with ThreadPoolExecutor(max_workers=common.NCPU) as ex:
            for results in ex.map(one_case, [(c2m, seed, i, tmp) for i in range(n)]):
                res.counters["cases"] = res.counters.get("cases", 0) + 1
                for kind, fp, shape, detail in results:
                    if kind == "discard":
                        res.discarded[fp] = res.discarded.get(fp, 0) + 1
                    elif kind == "ok":
                        res.distinct.add(shape)
                        res.counters["runs_equal_%s" % fp] = res.counters.get("runs_equal_%s" % fp, 0) + 1
                        res.counters["values_compared"] = res.counters.get("values_compared", 0) + detail
                    else:
                        res.distinct.add(shape)
                        res.add_viol(fp, detail, cmd="./run C07 --tier %s --seed %d" % (tier, seed))
    finally:
        subprocess.run(["rm", "-rf", tmp])
    return common.finish(
        res, tier, RULE,
        assumptions=["gcc -O0 -fwrapv is the reference; a program whose output changes under gcc -O2 -fsanitize=undefined is discarded as not well defined",
                     "implementation-defined behaviour (conversion of out-of-range values to signed types, right shift of negative values, plain char signed) is "
                     "that of x86-64 gcc, which c2mir documents to follow"],
        evaluations=res.counters.get("values_compared", 0),
        floor={"cases": 80, "values_compared": 3000})


def replay(path):
    print(open(path).read())
    return 0
