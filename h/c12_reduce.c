/* C12: mir-reduce.h is lossless and never trusts a damaged stream.  Header-only harness, ASan+UBSan.
   A "case" is one input payload: it is encoded, decoded (identity), and then every mutation of its
   encoding chosen by the mode is decoded; each must be reported as a failure.
   Modes: exh (exhaustive payloads over small alphabets, --extra maxlen), struct (structured/long payloads),
          craft (grammar-aware adversarial streams, no payload), file (--extra path: payload from a file, replay helper) */
#include "vp.h"
#include "mir-alloc.h"
#include "mir-reduce.h"

/* one reusable, exactly-sized heap block for struct reduce_data: ASan red zones sit right behind buf[] */
static void *the_block;
static size_t the_block_size;
static void *al_malloc (size_t sz, void *ud) {
  if (the_block == NULL || the_block_size != sz) { free (the_block); the_block = malloc (sz); the_block_size = sz; }
  return the_block;
}
static void *al_calloc (size_t n, size_t sz, void *ud) { void *p = al_malloc (n * sz, ud); memset (p, 0, n * sz); return p; }
static void *al_realloc (void *p, size_t o, size_t n, void *ud) { abort (); }
static void al_free (void *p, void *ud) {}
static struct MIR_alloc al = {al_malloc, al_calloc, al_realloc, al_free, NULL};

typedef struct { uint8_t *p; size_t len, cap, pos; } bufio_t;
static bufio_t in_io, out_io;
static void buf_put (bufio_t *b, const void *s, size_t n) {
  if (b->p == NULL || b->len + n > b->cap) { b->cap = (b->len + n) * 2 + 64; b->p = realloc (b->p, b->cap); }
  if (n) memcpy (b->p + b->len, s, n);
  b->len += n;
}
static size_t rd (void *start, size_t len, void *aux) {
  size_t n = in_io.len - in_io.pos < len ? in_io.len - in_io.pos : len;
  if (n) memcpy (start, in_io.p + in_io.pos, n);
  in_io.pos += n;
  return n;
}
static size_t wr (const void *start, size_t len, void *aux) { buf_put (&out_io, start, len); return len; }

static long n_decodes, n_rejected, n_acc_equiv, n_acc_diff, n_encodes;
static long cur_case;
static const char *cur_mode;

static bufio_t payload, stream, mut;

static void encode_payload (void) {
  in_io = (bufio_t){payload.p, payload.len, payload.len, 0};
  out_io.len = 0;
  int ok = reduce_encode (&al, rd, wr, NULL);
  n_encodes++;
  stream.len = 0; buf_put (&stream, out_io.p, out_io.len);
  if (!ok) vp_viol ("encode-not-ok", "case=%ld mode=%s encoder reported failure on a %zu-byte payload", cur_case, cur_mode, payload.len);
}
/* decode s[0..n) ; returns ok flag, output in out_io */
static int decode_stream (const uint8_t *s, size_t n) {
  in_io = (bufio_t){(uint8_t *) s, n, n, 0};
  out_io.len = 0;
  n_decodes++;
  return reduce_decode (&al, rd, wr, NULL);
}
static void hex (char *dst, size_t dsz, const uint8_t *s, size_t n) {
  size_t o = 0;
  for (size_t i = 0; i < n && o + 3 < dsz; i++) o += snprintf (dst + o, dsz - o, "%02x", s[i]);
  if (n * 2 >= dsz - 3 && dsz > 4) strcpy (dst + dsz - 4, "...");
}
static void desc_case (char *dst, size_t dsz, const char *kind, size_t at, int val) {
  char ph[200], sh[400], mh[400];
  hex (ph, sizeof ph, payload.p, payload.len);
  hex (sh, sizeof sh, stream.p, stream.len);
  hex (mh, sizeof mh, mut.p, mut.len);
  snprintf (dst, dsz, "case=%ld mode=%s mutation=%s at=%zu val=%d payload_len=%zu stream_len=%zu\npayload=%s\nstream=%s\nmutated=%s", cur_case, cur_mode,
            kind, at, val, payload.len, stream.len, ph, sh, mh);
}
/* classify byte positions of the *original* stream: P prefix, T tag, L symbol-length uint, S symbol bytes,
   R reference-length uint, I reference-index uint, Z terminating zero tag, H check hash, ? unparsed */
static char *pos_class; static size_t pos_class_cap;
static size_t uint_len (uint8_t b) { int n; for (n = 1; n <= 4 && (b >> (8 - n)) != 1; n++) ; return n; }
static void classify_stream (void) {
  size_t n = stream.len, i = 0;
  if (pos_class_cap < n + 1) { pos_class_cap = n * 2 + 64; pos_class = realloc (pos_class, pos_class_cap); }
  memset (pos_class, '?', n);
  for (; i < 3 && i < n; i++) pos_class[i] = 'P';
  while (i < n) {
    uint8_t tag = stream.p[i];
    if (tag == 0) { pos_class[i++] = 'Z'; for (int k = 0; k < 8 && i < n; k++) pos_class[i++] = 'H'; continue; }
    pos_class[i++] = 'T';
    uint32_t sl = tag >> 5, rl = tag & 31;
    if (sl == 7 && i < n) { size_t ul = uint_len (stream.p[i]); uint32_t v = stream.p[i] & (0xff >> ul); pos_class[i] = 'L'; for (size_t k = 1; k < ul && i + k < n; k++) { v = v * 256 + stream.p[i + k]; pos_class[i + k] = 'L'; } i += ul; sl = v; }
    for (uint32_t k = 0; k < sl && i < n; k++) pos_class[i++] = 'S';
    if (rl != 0) {
      if (rl == 31 && i < n) { size_t ul = uint_len (stream.p[i]); for (size_t k = 0; k < ul && i + k < n; k++) pos_class[i + k] = 'R'; i += ul; }
      if (i < n) { size_t ul = uint_len (stream.p[i]); for (size_t k = 0; k < ul && i + k < n; k++) pos_class[i + k] = 'I'; i += ul; }
    }
  }
}
/* the check hash the format defines for a payload: chained per 256K buffer */
static uint64_t payload_hash (const uint8_t *p, size_t n) {
  uint64_t h = _REDUCE_CHECK_HASH_SEED;
  for (size_t o = 0; o < n; o += _REDUCE_BUF_LEN) h = mir_hash_strict (p + o, n - o < _REDUCE_BUF_LEN ? n - o : _REDUCE_BUF_LEN, h);
  return h;
}
/* all differing aligned 16-byte blocks consist of two repeated-byte 8-byte halves in both payloads */
static int only_repeated_byte_blocks_differ (const uint8_t *a, const uint8_t *b, size_t n) {
  for (size_t o = 0; o < n; o += 16) {
    size_t l = n - o < 16 ? n - o : 16;
    if (memcmp (a + o, b + o, l) == 0) continue;
    if (l < 16 || o / _REDUCE_BUF_LEN != (o + 15) / _REDUCE_BUF_LEN) return 0;
    for (int h = 0; h < 2; h++)
      for (int k = 1; k < 8; k++)
        if (a[o + h * 8 + k] != a[o + h * 8] || b[o + h * 8 + k] != b[o + h * 8]) return 0;
  }
  return 1;
}
/* check that the damaged stream in `mut` is reported as failure */
static void check_damaged (const char *kind, size_t at, int val) {
  char d[2048];
  if (mut.len == stream.len && stream.len && memcmp (mut.p, stream.p, stream.len) == 0) return; /* not a mutation */
  int ok = decode_stream (mut.p, mut.len);
  if (!ok) { n_rejected++; return; }
  char fp[96];
  if (out_io.len == payload.len && (payload.len == 0 || memcmp (out_io.p, payload.p, payload.len) == 0)) {
    n_acc_equiv++;
    /* the class of the stream position that was changed: a substituted or deleted byte, the byte an insertion precedes, either byte of a swap */
    char pc = '-';
    if ((!strcmp (kind, "subst") || !strcmp (kind, "delete") || !strcmp (kind, "insert") || !strcmp (kind, "swap")) && at < stream.len) {
      pc = pos_class[at];
      if (!strcmp (kind, "swap") && at + 1 < stream.len && pos_class[at + 1] == 'I') pc = 'I';
    }
    snprintf (fp, sizeof fp, "accepted-equivalent:%s:%c", kind, pc);
  } else {
    n_acc_diff++;
    if (out_io.len == payload.len && payload_hash (out_io.p, out_io.len) == payload_hash (payload.p, payload.len))
      snprintf (fp, sizeof fp, "accepted-different:hash-collision:%s", only_repeated_byte_blocks_differ (out_io.p, payload.p, payload.len) ? "repeated-byte-blocks" : "other");
    else
      snprintf (fp, sizeof fp, "accepted-different:unverified:%s", kind);
  }
  desc_case (d, sizeof d, kind, at, val);
  size_t fd = 0;
  while (fd < out_io.len && fd < payload.len && out_io.p[fd] == payload.p[fd]) fd++;
  vp_viol (fp, "%s\nout_len=%zu first_difference_at=%zu", d, out_io.len, fd);
}
static void set_mut (const uint8_t *s, size_t n) { mut.len = 0; buf_put (&mut, s, n); }

static void roundtrip (void) {
  encode_payload ();
  int ok = decode_stream (stream.p, stream.len);
  if (!ok || out_io.len != payload.len || (payload.len && memcmp (out_io.p, payload.p, payload.len) != 0)) {
    char d[2048];
    set_mut (stream.p, stream.len);
    desc_case (d, sizeof d, "none", 0, 0);
    vp_viol (ok ? "roundtrip-differs" : "roundtrip-rejected", "%s\nok=%d out_len=%zu", d, ok, out_io.len);
  }
}

/* all mutations of a short stream, sampled mutations of a long one */
static void mutate_all (vp_rng_t *r, int full) {
  size_t n = stream.len;
  classify_stream ();
  /* truncations */
  if (n <= 4096) {
    for (size_t l = 0; l < n; l++) { set_mut (stream.p, l); check_damaged ("truncate", l, 0); }
  } else {
    for (size_t l = 0; l < 40; l++) { set_mut (stream.p, l); check_damaged ("truncate", l, 0); }
    for (size_t l = n - 40; l < n; l++) { set_mut (stream.p, l); check_damaged ("truncate", l, 0); }
    for (int k = 0; k < 60; k++) { size_t l = vp_below (r, n); set_mut (stream.p, l); check_damaged ("truncate", l, 0); }
  }
  /* extensions by 1..3 bytes */
  for (int e = 1; e <= 3; e++)
    for (int v = 0; v < 4; v++) {
      static const uint8_t ev[] = {0x00, 0xff, 0x81, 0x4d};
      set_mut (stream.p, n);
      for (int i = 0; i < e; i++) buf_put (&mut, &ev[v], 1);
      check_damaged ("extend", n, ev[v]);
    }
  /* substitutions */
  size_t npos = n;
  int sampled = n > 4096;
  size_t iters = sampled ? 400 : npos;
  for (size_t it = 0; it < iters; it++) {
    size_t p = sampled ? (it < 64 ? it : it < 128 ? n - 1 - (it - 64) : vp_below (r, n)) : it;
    if (p >= n) continue;
    if (full && n <= 64) {
      for (int v = 0; v < 256; v++) {
        if (v == stream.p[p]) continue;
        set_mut (stream.p, n); mut.p[p] = (uint8_t) v; check_damaged ("subst", p, v);
      }
    } else {
      uint8_t vals[6] = {(uint8_t) (stream.p[p] ^ (1u << vp_below (r, 8))), 0x00, 0xff, (uint8_t) (stream.p[p] + 1), (uint8_t) (stream.p[p] - 1), (uint8_t) vp_next (r)};
      for (int k = 0; k < (sampled ? 3 : 6); k++) {
        if (vals[k] == stream.p[p]) continue;
        set_mut (stream.p, n); mut.p[p] = vals[k]; check_damaged ("subst", p, vals[k]);
      }
    }
  }
  /* deletions, insertions, adjacent swaps */
  iters = sampled ? 200 : n;
  for (size_t it = 0; it < iters; it++) {
    size_t p = sampled ? vp_below (r, n) : it;
    mut.len = 0; buf_put (&mut, stream.p, p); buf_put (&mut, stream.p + p + 1, n - p - 1); check_damaged ("delete", p, 0);
    uint8_t ins[3] = {stream.p[p], 0x00, (uint8_t) vp_next (r)};
    for (int k = 0; k < 3; k++) {
      mut.len = 0; buf_put (&mut, stream.p, p); buf_put (&mut, &ins[k], 1); buf_put (&mut, stream.p + p, n - p); check_damaged ("insert", p, ins[k]);
    }
    if (p + 1 < n && stream.p[p] != stream.p[p + 1]) {
      set_mut (stream.p, n); uint8_t t = mut.p[p]; mut.p[p] = mut.p[p + 1]; mut.p[p + 1] = t; check_damaged ("swap", p, 0);
    }
  }
}

/* ---- exhaustive payloads: index -> (alphabet size k in 1..4, length l in 0..maxlen, digits) */
static const uint8_t alpha[4] = {0x61, 0x00, 0xff, 0x80};
static long ipow (long b, int e) { long r = 1; while (e-- > 0) r *= b; return r; }
static int maxlen_for (int k, int maxlen) { return k == 4 ? (maxlen > 8 ? maxlen - 4 : maxlen) : k == 3 ? maxlen : k == 2 ? maxlen + 4 : maxlen + 40; }
static long exh_total (int maxlen) {
  long t = 0;
  for (int k = 1; k <= 4; k++) for (int l = 0; l <= maxlen_for (k, maxlen); l++) t += ipow (k, l);
  return t;
}
static int exh_decode (long idx, int maxlen) {
  for (int k = 1; k <= 4; k++)
    for (int l = 0; l <= maxlen_for (k, maxlen); l++) {
      long n = ipow (k, l);
      if (idx < n) {
        payload.len = 0;
        for (int i = 0; i < l; i++) { buf_put (&payload, &alpha[idx % k], 1); idx /= k; }
        return 1;
      }
      idx -= n;
    }
  return 0;
}

/* ---- structured payloads */
static void gen_struct (vp_rng_t *r, int tier, long idx) {
  static const size_t B = _REDUCE_BUF_LEN;
  size_t len;
  int kind = (int) vp_below (r, 8);
  int big = vp_chance (r, tier ? 12 : 4) || idx < 3;
  if (big) {
    size_t k = idx < 3 ? (size_t) idx + 1 : 1 + vp_below (r, 3);
    long d = idx < 3 ? (long[]){0, 1, -1}[idx] : vp_range (r, -5, 5);
    len = (size_t) ((long) (B * k) + d);
  } else {
    len = vp_chance (r, 50) ? vp_below (r, 300) : vp_below (r, 20000);
  }
  payload.len = 0;
  if (payload.cap < len + 8) { payload.cap = len + 64; payload.p = realloc (payload.p, payload.cap); }
  uint8_t *p = payload.p;
  switch (kind) {
  case 0: { uint8_t c = (uint8_t) vp_next (r); memset (p, c, len); break; }                       /* run */
  case 1: { size_t per = 1 + (vp_chance (r, 50) ? vp_below (r, 8) : vp_below (r, 4100));           /* periodic */
    uint8_t pat[4200]; for (size_t i = 0; i < per; i++) pat[i] = (uint8_t) vp_next (r);
    for (size_t i = 0; i < len; i++) p[i] = pat[i % per]; break; }
  case 2: for (size_t i = 0; i < len; i++) p[i] = (uint8_t) vp_next (r); break;                    /* incompressible */
  case 3: { static const char *w[] = {"mov ", "add ", "i64:", "(fp)", "ret\n", "label", "\0\0\0\0", "call proto, "};  /* text-like */
    size_t i = 0; while (i < len) { const char *s = w[vp_below (r, 8)]; size_t n = 4 + vp_below (r, 3); for (size_t j = 0; j < n && i < len; j++) p[i++] = s[j % 5]; } break; }
  case 4: { for (size_t i = 0; i < len; i++) p[i] = (uint8_t) (i >> (vp_below (r, 2) ? 2 : 4)); break; }  /* slowly changing */
  case 5: { size_t i = 0; while (i < len) { size_t run = 1 + vp_below (r, 3000); uint8_t c = (uint8_t) vp_next (r); for (size_t j = 0; j < run && i < len; j++) p[i++] = c; } break; } /* long runs: >2047 symbol / long refs */
  case 6: { for (size_t i = 0; i < len; i++) p[i] = (uint8_t) vp_next (r);                           /* random with far repeats */
    for (int k = 0; k < 50 && len > 64; k++) { size_t a = vp_below (r, len - 32), b = vp_below (r, len - 32), n = 4 + vp_below (r, 28); memmove (p + b, p + a, n); } break; }
  default: { uint8_t two[2] = {(uint8_t) vp_next (r), (uint8_t) vp_next (r)}; for (size_t i = 0; i < len; i++) p[i] = two[vp_below (r, 2)]; break; }
  }
  payload.len = len;
}

/* ---- crafted streams: syntactically valid elements with adversarial fields.  No payload: the only
   legal outcomes are "rejected" or (if it happens to be a well-formed stream) any result; ASan judges memory safety.
   A crafted stream carries a *correct* hash of whatever a lenient decoder would produce only by luck, so acceptance
   is additionally reported (accepted streams are compared against a strict reference decoder below). */
static void put_uint (bufio_t *b, uint32_t u, int nonminimal) {
  int n;
  for (n = 1; n <= 4 && u >= (1u << 7 * n); n++) ;
  if (nonminimal && n < 4) n++;
  if (n > 4) n = 4;
  uint8_t t = (uint8_t) ((1 << (8 - n)) | ((u >> (n - 1) * 8) & (0xff >> n)));
  buf_put (b, &t, 1);
  for (int i = 2; i <= n; i++) { uint8_t c = (u >> (n - i) * 8) & 0xff; buf_put (b, &c, 1); }
}
static long n_craft_accepted;
static void craft_case (vp_rng_t *r) {
  mut.len = 0;
  buf_put (&mut, "MIR", 3);
  int nel = (int) vp_range (r, 1, 12);
  size_t produced = 0; uint32_t inds = 0;
  for (int e = 0; e < nel; e++) {
    int what = (int) vp_below (r, 10);
    uint32_t sym_len = 0, ref_len = 0, ref_ind = 0; int have_ref = 0;
    switch (what) {
    case 0: sym_len = (uint32_t) vp_below (r, 7); break;
    case 1: sym_len = (uint32_t) (7 + vp_below (r, 30)); break;
    case 2: sym_len = (uint32_t[]){2046, 2047, 2048, 4000, 70000, 1u << 27}[vp_below (r, 6)]; break;
    case 3: sym_len = (uint32_t) (1 + vp_below (r, 8)); have_ref = 1; ref_len = (uint32_t) (1 + vp_below (r, 30)); ref_ind = inds ? (uint32_t) (1 + vp_below (r, inds + (uint32_t) sym_len)) : 1; break;
    case 4: have_ref = 1; ref_len = (uint32_t[]){31, 100, 1000, 262140, 262144, 300000, (1u << 28) - 1}[vp_below (r, 7)]; ref_ind = (uint32_t) (1 + vp_below (r, inds + 1)); break;
    case 5: have_ref = 1; ref_len = (uint32_t) (1 + vp_below (r, 40)); ref_ind = 0; break;                        /* offset 0: never written by the encoder */
    case 6: have_ref = 1; ref_len = (uint32_t) (1 + vp_below (r, 40)); ref_ind = inds + (uint32_t) vp_below (r, 5); break; /* at / beyond current index */
    case 7: sym_len = (uint32_t) (4 + vp_below (r, 4)); have_ref = 1; ref_len = (uint32_t) (5 + vp_below (r, 200)); ref_ind = 1; break; /* overlap: source = last byte */
    case 8: { /* fill close to the end of the buffer then overrun with a ref */
      for (int k = 0; k < 128 && produced + 2047 < _REDUCE_BUF_LEN; k++) {
        uint8_t t = 0xe0; buf_put (&mut, &t, 1); put_uint (&mut, 2047, 0);
        for (int i = 0; i < 2047; i++) { uint8_t c = (uint8_t) vp_next (r); buf_put (&mut, &c, 1); }
        produced += 2047; inds += 2047;
      }
      have_ref = 1; ref_len = (uint32_t) (_REDUCE_BUF_LEN - produced + vp_below (r, 64)); if (ref_len < 1) ref_len = 1; ref_ind = inds ? inds : 1; break; }
    default: { uint8_t raw[6]; size_t n = 1 + vp_below (r, 6); for (size_t i = 0; i < n; i++) raw[i] = (uint8_t) vp_next (r); buf_put (&mut, raw, n); continue; }
    }
    int nonmin = vp_chance (r, 15);
    uint32_t rl_field = have_ref ? ref_len : 0; /* stored = len - 3, 0 = no ref */
    uint8_t tag = (uint8_t) (((sym_len < 7 ? sym_len : 7) << 5) | (rl_field < 31 ? rl_field : 31));
    if (tag == 0) tag = 0x20, sym_len = 1;
    buf_put (&mut, &tag, 1);
    if (sym_len >= 7) put_uint (&mut, sym_len, nonmin);
    size_t emit = sym_len > 5000 ? 5000 : sym_len; /* oversized lengths: do not supply all bytes */
    for (size_t i = 0; i < emit; i++) { uint8_t c = (uint8_t) vp_next (r); buf_put (&mut, &c, 1); }
    produced += sym_len; inds += sym_len;
    if (have_ref) {
      if (rl_field >= 31) put_uint (&mut, rl_field, nonmin);
      put_uint (&mut, ref_ind, vp_chance (r, 15));
      produced += ref_len + 3; inds++;
    }
  }
  /* terminate like a real stream half of the time (with a random or zero hash) */
  if (vp_chance (r, 60)) {
    uint8_t z = 0; buf_put (&mut, &z, 1);
    for (int i = 0; i < 8; i++) { uint8_t c = vp_chance (r, 50) ? 0 : (uint8_t) vp_next (r); buf_put (&mut, &c, 1); }
  }
  int ok = decode_stream (mut.p, mut.len);
  if (ok) {
    n_craft_accepted++;
    char mh[600]; hex (mh, sizeof mh, mut.p, mut.len);
    vp_viol ("accepted-crafted", "case=%ld mode=craft a crafted stream with a random hash was accepted (out_len=%zu)\nstream=%s", cur_case, out_io.len, mh);
  } else n_rejected++;
}

int main (int argc, char **argv) {
  vp_args_t a = vp_parse_args (argc, argv);
  int maxlen = atoi (a.extra[0] ? a.extra : "8");
  cur_mode = a.mode;
  for (int i = 1; i < argc; i++)
    if (!strcmp (argv[i], "--query")) { printf ("TOTAL %ld\n", exh_total (maxlen)); return 0; }
  long done = 0, nontriv = 0, with_ref = 0, multi_buf = 0, long_sym = 0;
  for (long c = a.start; c < a.start + a.count; c++) {
    cur_case = c;
    vp_case_begin (c);
    vp_rng_t r = vp_case_rng (a.seed, 0x1200 + (a.mode[0] == 's') * 7 + (a.mode[0] == 'c') * 13, c);
    if (!strcmp (a.mode, "craft")) {
      for (int k = 0; k < 64; k++) craft_case (&r);
      done++; nontriv++;
      continue;
    }
    if (!strcmp (a.mode, "exh")) { if (!exh_decode (c, maxlen)) break; }
    else if (!strcmp (a.mode, "struct")) gen_struct (&r, a.tier, c);
    else if (!strcmp (a.mode, "file")) {
      FILE *f = fopen (a.extra, "rb"); if (!f) return 3;
      uint8_t b[4096]; size_t n; payload.len = 0;
      while ((n = fread (b, 1, sizeof b, f)) > 0) buf_put (&payload, b, n);
      fclose (f);
    } else return 3;
    roundtrip ();
    /* stream statistics: does the encoding contain references / long symbols / several buffers */
    if (stream.len < payload.len + 12) with_ref++, nontriv++;
    if (payload.len > _REDUCE_BUF_LEN) multi_buf++;
    if (payload.len >= 2047 && stream.len > 2047) long_sym++;
    mutate_all (&r, 1);
    done++;
    if (a.verbose && a.count == 1) { char sh[800]; hex (sh, sizeof sh, stream.p, stream.len); printf ("NOTE payload_len=%zu stream=%s\n", payload.len, sh); }
  }
  if (a.start == 0 && strcmp (a.mode, "craft")) {
    char ph[100], sh[200]; hex (ph, sizeof ph, payload.p, payload.len); hex (sh, sizeof sh, stream.p, stream.len);
    vp_sample ("%s case %ld: payload(%zu)=%s stream(%zu)=%s", a.mode, a.start + done - 1, payload.len, ph, stream.len, sh);
  }
  printf ("EV cases %ld\nEV cases_%s %ld\nEV nontrivial %ld\nEV decode_calls %ld\nEV encode_calls %ld\nEV rejected %ld\nEV accepted_equivalent %ld\nEV accepted_different %ld\n", done, a.mode, done, nontriv,
          n_decodes, n_encodes, n_rejected, n_acc_equiv, n_acc_diff);
  printf ("EV payloads_with_backrefs %ld\nEV payloads_multi_buffer %ld\nEV payloads_long_symbols %ld\nEV crafted_accepted %ld\n", with_ref, multi_buf, long_sym, n_craft_accepted);
  return 0;
}
