"""C08: c2mir lays out and passes C data exactly as the platform ABI does (differential: c2m vs gcc, and c2m code <-> gcc code)."""
import os
import random
import re
import subprocess
import tempfile
from concurrent.futures import ThreadPoolExecutor
from vlib import build, common

RULE = ("one case = one generated translation unit pair. Layout part: 5-9 struct/union/enum declarations (all scalar kinds incl. long double, _Bool, "
        "pointers, enums; arrays of 1-2 dimensions; nested and anonymous structs/unions; bit-fields of every integer base type with widths 1..type "
        "width, zero-width and unnamed bit-fields, bit-fields after ordinary members and straddling storage units); the same file is compiled and "
        "run by gcc and by c2m (-ei and -eg): sizeof, _Alignof, offsetof of every named member and the byte image of a zeroed object after each "
        "bit-field is set to all ones must be equal. Passing part: for 3-5 of the struct types and a scalar mix, functions taking/returning them "
        "by value (after 0-6 integer and 0-8 double arguments, so that every register/stack position occurs) are compiled by gcc into a shared "
        "object and called from c2m-compiled code, and the gcc code calls back into c2m-compiled functions with the same signatures; every member "
        "received on either side is printed and compared with what a gcc-only build prints. distinct = distinct declaration shapes")

SCALARS = [("char", 1), ("signed char", 1), ("unsigned char", 1), ("short", 2), ("unsigned short", 2), ("int", 4), ("unsigned", 4), ("long", 8),
           ("unsigned long", 8), ("long long", 8), ("float", 4), ("double", 8), ("long double", 16), ("_Bool", 1), ("void *", 8), ("enum e0", 4)]
BF_TYPES = [("int", 32), ("unsigned", 32), ("char", 8), ("unsigned char", 8), ("short", 16), ("unsigned short", 16), ("long", 64), ("unsigned long", 64), ("_Bool", 1), ("long long", 64)]


class G:
    def __init__(self, rng):
        self.r = rng
        self.types = []   # (name, kind, members) members: (mname, ctype, kind) kind in scalar/array/agg/bitfield
        self.out = []
        self.shape = []

    def member(self, ti, mi, depth, allow_bf=True):
        r = self.r
        k = r.random()
        self.uid = getattr(self, "uid", 0) + 1
        name = "m%d_%d" % (mi, self.uid)  # members of anonymous structs/unions live in the enclosing scope: keep every name unique
        if allow_bf and k < 0.28:
            bt, w = r.choice(BF_TYPES)
            c = r.random()
            if c < 0.08:
                return ("%s : 0;" % bt, None, "bf0", None)
            width = r.choice([1, 2, 3, 7, 8, 9, 15, 16, 17, 24, 31, 32, 33, 63, 64, w, w - 1 if w > 1 else 1])
            width = max(1, min(width, w))
            if c < 0.14:
                return ("%s : %d;" % (bt, width), None, "bfpad", None)
            return ("%s %s : %d;" % (bt, name, width), name, "bf", bt)
        if k < 0.62 or depth > 1:
            t, _ = r.choice(SCALARS) if r.random() < 0.85 else ("long double", 16)   # 16-byte aligned aggregates are the rare case of argument passing
            return ("%s %s;" % (t, name), name, "scalar", t)
        if k < 0.74:
            t, _ = r.choice(SCALARS[:13])
            dims = "[%d]" % r.randint(1, 5) + ("[%d]" % r.randint(1, 3) if r.random() < 0.3 else "")
            return ("%s %s%s;" % (t, name, dims), name, "array", t)
        if k < 0.86 and ti > 0:
            tn = r.choice(self.types[:ti])[0]
            arr = "[%d]" % r.randint(1, 3) if r.random() < 0.2 else ""
            return ("%s %s%s;" % (tn, name, arr), name, "agg" + ("arr" if arr else ""), tn)
        # anonymous or named inline struct/union
        if r.random() < 0.06:
            return ("struct { %s : 0; };" % r.choice(BF_TYPES)[0], ("anon", []), "anon", None)   # an empty member (GNU C) ends a run of bit-fields
        kind = r.choice(["struct", "union"])
        inner = []
        body = []
        for j in range(r.randint(1, 3)):
            d, n, kd, bt = self.member(ti, mi * 10 + j + 1, depth + 1)
            body.append(d)
            if n:
                inner.append((n, kd, bt))
        if r.random() < 0.5:
            return ("%s { %s };" % (kind, " ".join(body)), ("anon", inner), "anon", None)
        return ("%s { %s } %s;" % (kind, " ".join(body), name), (name, inner), "inline", None)

    def gen_types(self):
        r = self.r
        n = r.randint(5, 9)
        decl = ["enum e0 { E0A, E0B = 1000, E0C };"]
        for ti in range(n):
            kind = "union" if r.random() < 0.2 else "struct"
            tn = "%s T%d" % (kind, ti)
            mems = []
            body = []
            nm = r.randint(1, 7)
            for mi in range(nm):
                d, name, kd, bt = self.member(ti, mi, 0)
                body.append(d)
                mems.append((name, kd, bt))
            if all(m[0] is None for m in mems):
                body.append("int last;")
                mems.append(("last", "scalar", "int"))
            decl.append("%s { %s };" % (tn, " ".join(body)))
            self.types.append((tn, kind, mems))
            self.shape.append((kind, tuple(m[1] for m in mems)))
        return decl

    def paths(self, mems, prefix=""):
        """(access path, kind, base type) for offsetof / bit-field probes"""
        out = []
        for name, kd, bt in mems:
            if name is None:
                continue
            if kd == "anon":
                out += self.paths([(n, k, b) for n, k, b in name[1]], prefix)
            elif kd == "inline":
                out.append((prefix + name[0], "agg", None))
                out += self.paths([(n, k, b) for n, k, b in name[1]], prefix + name[0] + ".")
            else:
                out.append((prefix + name, kd, bt))
        return out

    def layout_program(self, decl):
        L = ["#include <stdio.h>", "#include <stddef.h>", "#include <string.h>"] + decl
        L.append("static void dump (const char *n, void *p, size_t s) { unsigned char *b = p; printf (\"%s:\", n); for (size_t i = 0; i < s; i++) printf (\"%02x\", b[i]); printf (\"\\n\"); }")
        L.append("int main (void) {")
        for tn, kind, mems in self.types:
            L.append("  { %s v; printf (\"%s size %%zu align %%zu\\n\", sizeof (%s), _Alignof (%s));" % (tn, tn, tn, tn))
            for path, kd, bt in self.paths(mems):
                if kd == "bf":
                    L.append("    memset (&v, 0, sizeof v); v.%s = -1; dump (\"%s.%s\", &v, sizeof v);" % (path, tn, path))
                    L.append("    memset (&v, 0, sizeof v); v.%s = 1; dump (\"%s.%s=1\", &v, sizeof v);" % (path, tn, path))
                else:
                    L.append("    printf (\"%s.%s off %%zu size %%zu\\n\", offsetof (%s, %s), sizeof (v.%s));" % (tn, path, tn, path, path))
            L.append("  }")
        L.append("  return 0; }")
        return "\n".join(L) + "\n"

    # ---- by-value passing across the compiler boundary
    def leaf_members(self, tn):
        """scalar leaves of a struct type as (path, ctype) - bit-fields included, arrays by first/last element"""
        for n, kind, mems in self.types:
            if n == tn:
                res = []
                for path, kd, bt in self.paths(mems):
                    if kd in ("scalar", "bf"):
                        res.append((path, bt))
                    elif kd == "array":
                        res.append((path + "[0]" + ("[0]" if False else ""), None))
                return res
        return []

    def passing_programs(self, decl):
        r = self.r
        # only types without arrays of aggregates / multi-dim arrays keep the printer simple
        cands = []
        for tn, kind, mems in self.types:
            ok = True
            leaves = []
            for path, kd, bt in self.paths(mems):
                if kd in ("scalar", "bf"):
                    leaves.append((path, bt))
                elif kd in ("array", "aggarr"):
                    ok = False
                elif kd == "agg":
                    pass
            # nested named aggregate members: expand through their own leaves
            def expand(tname, prefix):
                acc = []
                for n2, k2, m2 in self.types:
                    if n2 == tname:
                        for p2, kd2, bt2 in self.paths(m2):
                            if kd2 in ("scalar", "bf"):
                                acc.append((prefix + p2, bt2))
                            elif kd2 == "agg" and bt2:
                                sub = expand(bt2, prefix + p2 + ".")
                                if sub is None:
                                    return None
                                acc += sub
                            elif kd2 in ("array", "aggarr"):
                                return None
                return acc
            full = []
            for path, kd, bt in self.paths(mems):
                if kd in ("scalar", "bf"):
                    full.append((path, bt))
                elif kd == "agg" and bt:
                    e = expand(bt, path + ".")
                    if e is None:
                        ok = False
                        break
                    full += e
                elif kd in ("array", "aggarr"):
                    ok = False
                    break
            if ok and full:
                cands.append((tn, full))
        r.shuffle(cands)
        cands = cands[:r.randint(3, 5)]
        if not cands:
            return None
        hdr = list(decl)
        funcs = []

        def val(bt, k):
            if bt in ("float", "double", "long double"):
                return "%d.5" % (k + 1)
            if bt == "void *":
                return "(void *) %d" % (0x1000 + k)
            if bt == "_Bool":
                return "1"
            if bt == "enum e0":
                return "E0B"
            return "%d" % ((k * 37 + 11) % 100)

        def fmt(bt):
            if bt in ("float", "double"):
                return "%g", "(double) "
            if bt == "long double":
                return "%Lg", ""
            if bt == "void *":
                return "%p", ""
            if bt == "enum e0":   # the signedness of the enum's compatible type is not an ABI matter (gcc: unsigned, psABI table: signed); members overlaid by other union members hold arbitrary bits
                return "%lld", "(long long) (int) "
            return "%lld", "(long long) "

        common_c = []
        for i, (tn, leaves) in enumerate(cands):
            ni, nd = r.randint(0, 6), r.randint(0, 8)
            pre = ["long i%d" % k for k in range(ni)] + ["double d%d" % k for k in range(nd)]
            if r.random() < 0.3:
                pre.append("long double ld")
            r.shuffle(pre)
            pos = r.randint(0, len(pre))
            params = pre[:pos] + ["%s s" % tn] + pre[pos:]
            sig = ", ".join(params)
            args_names = [p.split()[-1] for p in params]
            pr = "  printf (\"%%s f%d:\", who); " % i
            for p in params:
                nm = p.split()[-1]
                if nm == "s":
                    for path, bt in leaves:
                        f, cast = fmt(bt)
                        pr += "printf (\" %s=%s\", %ss.%s); " % (path, f, cast, path)
                elif nm.startswith("i"):
                    pr += "printf (\" %s=%%ld\", %s); " % (nm, nm)
                elif nm == "ld":
                    pr += "printf (\" ld=%Lg\", ld); "
                else:
                    pr += "printf (\" %s=%%g\", %s); " % (nm, nm)
            pr += "printf (\"\\n\");"
            funcs.append((i, tn, leaves, sig, args_names, pr))
            hdr.append("%s ext_f%d (%s);" % (tn, i, sig))
            hdr.append("%s cb_f%d (%s);" % (tn, i, sig))
            hdr.append("void ext_call_cb%d (%s (*cb) (%s));" % (i, tn, sig))
        header = "\n".join(["#include <stdio.h>", "#include <string.h>"] + hdr) + "\n"
        ext = [header]
        main = [header]
        for i, tn, leaves, sig, an, pr in funcs:
            mod = " ".join("s.%s = %s;" % (path, val(bt, k + 3)) for k, (path, bt) in enumerate(leaves) if bt != "_Bool")
            ext.append("%s ext_f%d (%s) { const char *who = \"ext\";\n%s\n  %s return s; }" % (tn, i, sig, pr, mod))
            main.append("%s cb_f%d (%s) { const char *who = \"cb\";\n%s\n  %s return s; }" % (tn, i, sig, pr, mod))

            def call_args(k0):
                out = []
                for nm in an:
                    if nm == "s":
                        out.append("v")
                    elif nm.startswith("i"):
                        out.append("%d" % (int(nm[1:]) * 1000 + k0))
                    elif nm == "ld":
                        out.append("%d.25L" % k0)
                    else:
                        out.append("%d.75" % (int(nm[1:]) + k0))
                return ", ".join(out)
            init = "memset (&v, 0, sizeof v); " + " ".join("v.%s = %s;" % (path, val(bt, k)) for k, (path, bt) in enumerate(leaves))
            show = " ".join("printf (\" %s=%s\", %sr.%s);" % ((path,) + fmt(bt) + (path,)) for path, bt in leaves)
            ext.append("void ext_call_cb%d (%s (*cb) (%s)) { %s v, r; %s r = cb (%s); printf (\"ext got back f%d:\"); %s printf (\"\\n\"); }" % (i, tn, sig, tn, init, call_args(7), i, show))
            main.append("static void test%d (void) { %s v, r; %s r = ext_f%d (%s); printf (\"main got back f%d:\"); %s printf (\"\\n\"); ext_call_cb%d (cb_f%d); }" % (i, tn, init, i, call_args(3), i, show, i, i))
        main.append("int main (void) { %s return 0; }" % " ".join("test%d ();" % f[0] for f in funcs))
        return "\n".join(ext) + "\n", "\n".join(main) + "\n"


def unnamed_bf_types(decl):
    """names of the declared types that contain an unnamed (incl. zero-width) bit-field, directly or through a member type"""
    bad = set()
    decls = {}
    for d in decl:
        m = re.match(r"((?:struct|union) T\d+) \{(.*)\};$", d)
        if m:
            decls[m.group(1)] = m.group(2)
    changed = True
    while changed:
        changed = False
        for tn, body in decls.items():
            if tn in bad:
                continue
            if re.search(r"(?:^|[;{]) *(?:unsigned |signed )?(?:long long|long|int|short|char|unsigned|_Bool) : \d+;", body) or any(re.search(re.escape(b) + r"\b", body) for b in bad):
                bad.add(tn)
                changed = True
    return bad


def long_double_types(decl):
    """names of the declared types that contain a long double member, directly or through a member type (16-byte aligned aggregates)"""
    bad = set()
    decls = {}
    for d in decl:
        m = re.match(r"((?:struct|union) T\d+) \{(.*)\};$", d)
        if m:
            decls[m.group(1)] = m.group(2)
    changed = True
    while changed:
        changed = False
        for tn, body in decls.items():
            if tn not in bad and ("long double" in body or any(re.search(re.escape(b) + r"\b", body) for b in bad)):
                bad.add(tn)
                changed = True
    return bad


def type_feature(tn, decl):
    if tn in long_double_types(decl):
        return "type-with-long-double-member"
    if tn in unnamed_bf_types(decl):
        return "type-with-unnamed-bit-field"
    return "plain"


def run_cmd(cmd, env=None, timeout=120):
    try:
        r = subprocess.run(cmd, stdout=subprocess.PIPE, stderr=subprocess.PIPE, text=True, errors="replace", timeout=timeout, env=env)
        return r.returncode, r.stdout, r.stderr
    except subprocess.TimeoutExpired:
        return -999, "", "timeout"


def first_diff(a, b):
    la, lb = a.splitlines(), b.splitlines()
    for i in range(max(len(la), len(lb))):
        x = la[i] if i < len(la) else "<missing>"
        y = lb[i] if i < len(lb) else "<missing>"
        if x != y:
            return x, y
    return None, None


def refs_disagree(d, ep, mp, ref, env):
    """True when gcc and clang themselves do not agree on how this program's aggregates are passed (a gcc-compiled and a
    clang-compiled side exchanged the values differently from gcc/gcc): the platform ABI is then not a single answer for
    these types (known for unions holding unnamed bit-fields and eightbytes holding only unnamed bit-fields) and the case
    cannot convict c2mir."""
    dc = os.path.join(d, "clang")
    os.makedirs(dc, exist_ok=True)
    try:
        rc, _, _ = run_cmd(["clang", "-std=c11", "-w", "-shared", "-fPIC", ep, "-o", os.path.join(dc, "libvpext.so")])
        if rc != 0:
            return False
        rc, out, _ = run_cmd([os.path.join(d, "main_ref")], env=dict(env, LD_LIBRARY_PATH=dc))
        if rc != 0 or out != ref:
            return True
        rc, _, _ = run_cmd(["clang", "-std=c11", "-w", mp, "-L" + d, "-lvpext", "-o", os.path.join(dc, "main_clang")])
        if rc != 0:
            return False
        rc, out, _ = run_cmd([os.path.join(dc, "main_clang")], env=env)
        return rc != 0 or out != ref
    except Exception:
        return False


def one_case(args):
    c2m, seed, idx, tmp = args
    rng = random.Random((seed << 32) ^ (idx * 2654435761))
    g = G(rng)
    decl = g.gen_types()
    shape = hash(tuple(g.shape)) & 0xffffffffffff
    d = os.path.join(tmp, "c%d" % idx)
    os.makedirs(d, exist_ok=True)
    env = dict(os.environ, ASAN_OPTIONS="detect_leaks=0:abort_on_error=1", LD_LIBRARY_PATH=d)
    results = []
    try:
        # ---- layout
        src = g.layout_program(decl)
        lp = os.path.join(d, "layout.c")
        open(lp, "w").write(src)
        rc, _, err = run_cmd(["gcc", "-std=c11", "-w", lp, "-o", os.path.join(d, "layout_ref")])
        if rc != 0:
            return [("discard", "reference-compiler-rejects-layout-program", shape, err[-300:])]
        rc, ref, _ = run_cmd([os.path.join(d, "layout_ref")])
        for eng in ("-ei", "-eg"):
            rc, out, err = run_cmd([c2m, lp, eng], env=env)
            if rc != 0:
                summ = common.san_summary(err)
                msg = re.sub(r"\S*layout\.c:\d+:\d+:", "", (err.strip().splitlines() or ["?"])[0])
                kind = "c2m-crash:%s" % summ if (summ or rc < 0) else "c2m-rejects-layout-program:" + re.sub(r"[^A-Za-z]+", "-", re.sub(r"\b\w*\d\w*\b", "", msg)).strip("-")[:50]
                results.append(("viol", kind, shape, "case %d %s exit %d\n%s\n--- source\n%s" % (idx, eng, rc, err[-1200:], src)))
                break
            if out != ref:
                x, y = first_diff(out, ref)
                what = "bit-field-placement" if ":" in (x or "") and "off" not in (x or "") and "size" not in (x or "") else "size-or-alignment" if " size " in (x or "") and " off " not in (x or "") else "member-offset"
                tm = re.match(r"((?:struct|union) T\d+)", x or y or "")
                feat = type_feature(tm.group(1), decl) if tm else "plain"
                results.append(("viol", "layout-differs:%s:%s" % (what, feat), shape, "case %d %s (seed %d):\n c2m: %s\n gcc: %s\n--- source\n%s" % (idx, eng, seed, x, y, src)))
                break
        else:
            results.append(("ok", "layout", shape, ref.count("\n")))
        # ---- passing
        pp = g.passing_programs(decl)
        if pp is not None:
            ext, mainc = pp
            ep, mp = os.path.join(d, "ext.c"), os.path.join(d, "main.c")
            open(ep, "w").write(ext)
            open(mp, "w").write(mainc)
            rc, _, err = run_cmd(["gcc", "-std=c11", "-w", "-shared", "-fPIC", ep, "-o", os.path.join(d, "libvpext.so")])
            rc2, _, err2 = run_cmd(["gcc", "-std=c11", "-w", mp, "-L" + d, "-lvpext", "-o", os.path.join(d, "main_ref")])
            if rc != 0 or rc2 != 0:
                results.append(("discard", "reference-compiler-rejects-passing-program", shape, (err + err2)[-300:]))
            else:
                rc, ref, _ = run_cmd([os.path.join(d, "main_ref")], env=env)
                for eng in ("-ei", "-eg"):
                    rc, out, err = run_cmd([c2m, "-L" + d, "-lvpext", mp, eng], env=env)
                    if rc != 0:
                        summ = common.san_summary(err)
                        used = set(re.findall(r"((?:struct|union) T\d+) ext_f\d+ \(", ext))
                        feat = ("type-with-long-double-member" if used & long_double_types(decl) else "type-with-unnamed-bit-field" if used & unnamed_bf_types(decl) else "plain")
                        kind = "c2m-crash-in-passing-program:%s:%s" % (summ or common._sig_name(rc), feat)
                        if refs_disagree(d, ep, mp, ref, env):
                            results.append(("discard", "reference-compilers-disagree-on-passing", shape, ""))
                            break
                        results.append(("viol", kind, shape, "case %d %s exit %d\n%s\n--- main.c\n%s\n--- ext.c\n%s" % (idx, eng, rc, err[-1200:], mainc, ext)))
                        break
                    if out != ref:
                        x, y = first_diff(out, ref)
                        side = (x or y or "?").split(" ")[0]
                        fm = re.search(r"f(\d+):", x or y or "")
                        ftype = None
                        if fm:
                            tmm = re.search(r"((?:struct|union) T\d+) ext_f%s \(" % fm.group(1), ext)
                            ftype = tmm.group(1) if tmm else None
                        feat = type_feature(ftype, decl)
                        if refs_disagree(d, ep, mp, ref, env):
                            results.append(("discard", "reference-compilers-disagree-on-passing", shape, ""))
                            break
                        results.append(("viol", "by-value-passing-differs:%s:%s:%s" % (eng.strip("-"), side, feat), shape,
                                        "case %d %s (seed %d):\n c2m side: %s\n gcc only: %s\n--- main.c\n%s\n--- ext.c\n%s" % (idx, eng, seed, x, y, mainc, ext)))
                        break
                else:
                    results.append(("ok", "passing", shape, ref.count("\n")))
    finally:
        subprocess.run(["rm", "-rf", d])
    return results


def run(tier):
    res = common.Result("C08")
    th = tier == "thorough"
    seed = int(common.seed())
    c2m = os.path.join(build.build_lib("asan"), "c2m")
    n = 6000 if th else 700
    tmp = tempfile.mkdtemp(prefix="vp-c08-")
    try:
        with ThreadPoolExecutor(max_workers=common.NCPU) as ex:
            for results in ex.map(one_case, [(c2m, seed, i, tmp) for i in range(n)]):
                res.counters["cases"] = res.counters.get("cases", 0) + 1
                for kind, fp, shape, detail in results:
                    if kind == "discard":
                        res.discarded[fp] = res.discarded.get(fp, 0) + 1
                    elif kind == "ok":
                        res.distinct.add(shape)
                        res.counters[fp + "_programs_equal"] = res.counters.get(fp + "_programs_equal", 0) + 1
                        res.counters[fp + "_lines_compared"] = res.counters.get(fp + "_lines_compared", 0) + detail
                    else:
                        res.distinct.add(shape)
                        res.add_viol(fp, detail, cmd="./run C08 --tier %s --seed %d" % (tier, seed))
    finally:
        subprocess.run(["rm", "-rf", tmp])
    return common.finish(
        res, tier, RULE,
        assumptions=["gcc -std=c11 on x86-64 Linux is the platform ABI", "only natural alignment (no packed/aligned attributes)",
                     "the passing part uses struct types without array members (their contents are covered by the layout part)"],
        evaluations=res.counters.get("layout_lines_compared", 0) + res.counters.get("passing_lines_compared", 0),
        floor={"cases": 100})


def replay(path):
    print(open(path).read())
    return 0
