/* C13: imports bind to the most recently loaded export / external, for any load/link history.
   A 40-line sequential model of the global-name table predicts, for every probe of every module linked at a
   step, which definition must be reached and which error (if any) must be raised.
   Modes: exh (--extra LEN: every history of length LEN over a fixed 12-op menu), rnd (random versions/histories). */
#include "vp_mir.h"

#define NNAMES 5 /* f0 f1 f2 : functions ; d0 d1 : data */
#define NFUNC 3
static const char *names[NNAMES] = {"f0", "f1", "f2", "d0", "d1"};
enum role { R_NONE, R_EXPORT, R_PRIVATE, R_IMPORT };
typedef struct {
  int role[NNAMES];
  int order[NNAMES];   /* EXPORT: 0 = def then export, 1 = export then def, 2 = forward, export, def ; PRIVATE: 0 = def only, 1 = forward then def */
  int callkind[NNAMES]; /* 0 call, 1 inline, 2 call through register holding the reference */
  int filler;          /* extra insns in exported functions (keeps some above the call-inline threshold) */
} version_t;

enum opk { O_LOAD, O_EXT, O_LINK, O_PERM };
typedef struct { int k, a, b; } hop_t; /* LOAD a=version ; EXT a=name b=stub ; LINK a=interface(0 interp 1 gen 2 lazy 3 lazy-bb) b=resolver ; PERM a=on */

#define MAXV 8
static version_t vers[MAXV];
static int nvers;

/* native stubs */
#define NSTUB 4
static int64_t stub0 (void) { return 9000; }
static int64_t stub1 (void) { return 9001; }
static int64_t stub2 (void) { return 9002; }
static int64_t stub3 (void) { return 9003; }
static int64_t (*stubs[NSTUB]) (void) = {stub0, stub1, stub2, stub3};
static int64_t dstub[NSTUB] = {9500, 9501, 9502, 9503};
static int64_t resolver_hits;
static int64_t res_f (void) { return 9900; }
static int64_t res_d = 9950;
static void *resolver (const char *name) { resolver_hits++; return name[0] == 'f' ? (void *) res_f : (void *) &res_d; }
static int64_t id_of (int ver, int name) { return 1000 * (ver + 1) + name; }

static char text[1 << 16];
static int tlen;
static void T (const char *fmt, ...) { va_list ap; va_start (ap, fmt); tlen += vsnprintf (text + tlen, sizeof text - tlen, fmt, ap); va_end (ap); }
static void gen_version_text (int v) {
  const version_t *d = &vers[v];
  tlen = 0;
  T ("m%d: module\npf: proto i64\n", v);
  for (int i = 0; i < NNAMES; i++) {
    int isf = i < NFUNC;
    switch (d->role[i]) {
    case R_IMPORT: T ("import %s\n", names[i]); break;
    case R_EXPORT:
    case R_PRIVATE:
      if (d->role[i] == R_EXPORT && d->order[i] == 1) T ("export %s\n", names[i]);
      if ((d->role[i] == R_EXPORT && d->order[i] == 2) || (d->role[i] == R_PRIVATE && d->order[i] == 1)) T ("forward %s\n", names[i]);
      if (d->role[i] == R_EXPORT && d->order[i] == 2) T ("export %s\n", names[i]);
      if (isf) {
        T ("%s: func i64\n local i64:x\n mov x, %ld\n", names[i], (long) id_of (v, i));
        for (int k = 0; k < d->filler; k++) T (" add x, x, %d\n sub x, x, %d\n", k + 1, k + 1);
        T (" ret x\n endfunc\n");
      } else
        T ("%s: i64 %ld\n", names[i], (long) id_of (v, i));
      if (d->role[i] == R_EXPORT && d->order[i] == 0) T ("export %s\n", names[i]);
      break;
    default: break;
    }
  }
  for (int i = 0; i < NNAMES; i++) {
    if (d->role[i] == R_NONE) continue;
    T ("p%d_%s: func i64\n local i64:r, i64:a\n", v, names[i]);
    if (i < NFUNC) {
      if (d->callkind[i] == 2) T (" mov a, %s\n call pf, a, r\n", names[i]);
      else T (" %s pf, %s, r\n", d->callkind[i] == 1 ? "inline" : "call", names[i]);
    } else
      T (" mov a, %s\n mov r, i64:(a)\n", names[i]);
    T (" ret r\n endfunc\nexport p%d_%s\n", v, names[i]);
  }
  T ("endmodule\n");
}

/* ---------------- the model */
typedef struct { int kind; int64_t id; } bind_t; /* kind: 0 none, 1 MIR definition, 2 external */
typedef struct {
  bind_t tab[NNAMES];
  int perm;
} model_t;

static char hist[2048];
static int hlen;
static void H (const char *fmt, ...) { va_list ap; va_start (ap, fmt); if (hlen < (int) sizeof hist - 100) hlen += vsnprintf (hist + hlen, sizeof hist - hlen, fmt, ap); va_end (ap); }

static long cur_case;
static long n_probes, n_links, n_expected_errors, n_resolver_binds, n_redef_permitted, n_unspec_hist, n_hist_done, n_rebind;
static const char *ifname[] = {"interp", "gen", "lazy", "lazybb"};

static MIR_item_t find_func (MIR_module_t m, const char *name) {
  for (MIR_item_t it = DLIST_HEAD (MIR_item_t, m->items); it != NULL; it = DLIST_NEXT (MIR_item_t, it))
    if (it->item_type == MIR_func_item && strcmp (it->u.func->name, name) == 0) return it;
  return NULL;
}

/* probe all names of module v against expect[]; returns 0 on violation, 1 ok, 2 ok and an import was checked */
static int probe_module (MIR_module_t mod, int v, const int64_t *expect, int iface, const char *when) {
  int interesting = 0;
  for (int i = 0; i < NNAMES; i++) {
    if (vers[v].role[i] == R_NONE) continue;
    char pn[32]; snprintf (pn, sizeof pn, "p%d_%s", v, names[i]);
    MIR_item_t f = find_func (mod, pn);
    if (f == NULL || f->addr == NULL) { vp_viol ("probe-missing", "case=%ld probe %s not found/loaded\nhistory: %s", cur_case, pn, hist); return 0; }
    int64_t got = 0; int praised = 0;
    if (VP_TRY) { got = ((int64_t (*) (void)) f->addr) (); VP_END; } else praised = 1;
    vp_err_armed = 0;
    n_probes++;
    if (praised) { vp_viol ("probe-error", "case=%ld probe %s (%s) raised %s (%s)\nhistory: %s", cur_case, pn, when, vp_err_name (vp_err_type), vp_err_msg, hist); return 0; }
    if (got != expect[i]) {
      char fp[64];
      snprintf (fp, sizeof fp, "wrong-binding:%s:%s", vers[v].role[i] == R_IMPORT ? "import" : "local", i < NFUNC ? (vers[v].callkind[i] == 1 ? "inline" : vers[v].callkind[i] == 2 ? "call-via-reg" : "call") : "data");
      vp_viol (fp, "case=%ld probe %s (m%d's %s %s, interface %s, probed %s) reached definition %ld, model expects %ld\nhistory: %s", cur_case, pn, v,
               vers[v].role[i] == R_IMPORT ? "import of" : "own", names[i], ifname[iface], when, (long) got, (long) expect[i], hist);
      return 0;
    }
    if (vers[v].role[i] == R_IMPORT) interesting = 1;
  }
  return 1 + interesting;
}

/* run one history; returns 1 if it ran to the end or ended in an expected error, 0 on violation/skip */
static int run_history (const hop_t *ops, int nops) {
  static int64_t expect[MAXV][NNAMES]; int linked[MAXV], last_iface = 0; memset (linked, 0, sizeof linked);
  model_t M;
  MIR_context_t ctx;
  MIR_module_t mods[MAXV];
  int loaded[MAXV], pending[MAXV], npending = 0, gen_inited = 0, interesting = 0;
  memset (&M, 0, sizeof M); memset (loaded, 0, sizeof loaded); memset (mods, 0, sizeof mods);
  hlen = 0; hist[0] = 0;
  ctx = vp_new_ctx ();
  for (int n = 0; n < nops; n++) {
    const hop_t *o = &ops[n];
    int expect_err = 0, unspecified_err = 0; MIR_error_type_t exp_type = MIR_no_error;
    switch (o->k) {
    case O_PERM: H ("perm(%d) ", o->a); M.perm = o->a; MIR_set_func_redef_permission (ctx, o->a); break;
    case O_EXT: {
      H ("ext(%s,stub%d) ", names[o->a], o->b);
      if (VP_TRY) { MIR_load_external (ctx, names[o->a], o->a < NFUNC ? (void *) stubs[o->b] : (void *) &dstub[o->b]); VP_END; }
      else { vp_viol ("ext-error", "case=%ld load_external raised %s (%s)\nhistory: %s", cur_case, vp_err_name (vp_err_type), vp_err_msg, hist); return 0; }
      if (M.tab[o->a].kind) n_rebind++;
      M.tab[o->a].kind = 2; M.tab[o->a].id = (o->a < NFUNC ? 9000 : 9500) + o->b;
      break;
    }
    case O_LOAD: {
      int v = o->a;
      if (loaded[v]) return 0; /* not a legal history: skipped */
      H ("load(m%d) ", v);
      /* model: exports in item order; second exported *function* of a name needs permission */
      for (int i = 0; i < NNAMES; i++)
        if (vers[v].role[i] == R_EXPORT) {
          if (i < NFUNC && M.tab[i].kind == 1 && !M.perm && !expect_err) { expect_err = 1; exp_type = MIR_repeated_decl_error; }
          if (i < NFUNC && M.tab[i].kind == 2 && !M.perm) unspecified_err = 1; /* external registered first: MIR.md/property silent */
        }
      int raised = 0;
      if (VP_TRY) {
        if (mods[v] == NULL) {
          gen_version_text (v);
          MIR_scan_string (ctx, text);
          mods[v] = DLIST_TAIL (MIR_module_t, *MIR_get_module_list (ctx));
        }
        MIR_load_module (ctx, mods[v]);
        VP_END;
      } else raised = 1;
      vp_err_armed = 0;
      if (raised) {
        if (expect_err && vp_err_type == exp_type) { n_expected_errors++; return 1; }
        if (unspecified_err && vp_err_type == MIR_repeated_decl_error) { n_unspec_hist++; return 1; }
        vp_viol (expect_err ? "load-wrong-error" : "load-unexpected-error", "case=%ld load of m%d raised %s (%s)%s\nhistory: %s", cur_case, v, vp_err_name (vp_err_type), vp_err_msg,
                 expect_err ? " but repeated_decl was expected" : " but the model expects success", hist);
        return 0;
      }
      if (expect_err) {
        vp_viol ("redefinition-accepted", "case=%ld m%d exports a function already exported by an earlier module, redefinition is not permitted, yet load succeeded\nhistory: %s", cur_case, v, hist);
        return 0;
      }
      for (int i = 0; i < NNAMES; i++)
        if (vers[v].role[i] == R_EXPORT) {
          if (M.tab[i].kind) { n_rebind++; if (i < NFUNC && M.tab[i].kind == 1) n_redef_permitted++; }
          M.tab[i].kind = 1; M.tab[i].id = id_of (v, i);
        }
      loaded[v] = 1; pending[npending++] = v;
      break;
    }
    case O_LINK: {
      H ("link(%s%s) ", ifname[o->a], o->b ? ",resolver" : "");
      /* model: imports of pending modules read the table now; missing ones go to the resolver */
      int used_resolver = 0; last_iface = o->a;
      for (int p = 0; p < npending && !expect_err; p++) {
        int v = pending[p];
        for (int i = 0; i < NNAMES; i++) {
          if (vers[v].role[i] == R_IMPORT) {
            if (M.tab[i].kind == 0) {
              if (o->b) { M.tab[i].kind = 2; M.tab[i].id = i < NFUNC ? 9900 : 9950; used_resolver++; }
              else { expect_err = 1; exp_type = MIR_undeclared_op_ref_error; break; }
            }
            expect[v][i] = M.tab[i].id;
          } else if (vers[v].role[i] != R_NONE)
            expect[v][i] = id_of (v, i); /* own definition: local binding, whatever the table says */
        }
      }
      int raised = 0;
      int64_t res_before = resolver_hits;
      if (VP_TRY) {
        if (o->a >= 1 && !gen_inited) { MIR_gen_init (ctx); gen_inited = 1; MIR_gen_set_optimize_level (ctx, (unsigned) (cur_case % 4)); }
        MIR_link (ctx, o->a == 0 ? MIR_set_interp_interface : o->a == 1 ? MIR_set_gen_interface : o->a == 2 ? MIR_set_lazy_gen_interface : MIR_set_lazy_bb_gen_interface,
                  o->b ? resolver : NULL);
        VP_END;
      } else raised = 1;
      vp_err_armed = 0;
      n_links++;
      if (raised) {
        if (expect_err && vp_err_type == exp_type) { n_expected_errors++; return 1; }
        vp_viol (expect_err ? "link-wrong-error" : "link-unexpected-error", "case=%ld link raised %s (%s)%s\nhistory: %s", cur_case, vp_err_name (vp_err_type), vp_err_msg,
                 expect_err ? " but undeclared_op_ref was expected" : " but the model expects success", hist);
        return 0;
      }
      if (expect_err) { vp_viol ("unresolved-import-accepted", "case=%ld an import without any definition and without resolver did not raise an error\nhistory: %s", cur_case, hist); return 0; }
      if (resolver_hits - res_before != used_resolver) {
        vp_viol ("resolver-calls", "case=%ld resolver consulted %ld times, model expects %d (only names absent from the table)\nhistory: %s", cur_case, (long) (resolver_hits - res_before), used_resolver, hist);
        return 0;
      }
      n_resolver_binds += used_resolver;
      /* probe every module linked at this step.  Under lazy BB generation executed functions are rewritten in place and can
         no longer be inlined by modules linked later (outside this property: see DESIGN.md C13), so there all probing is
         deferred to the end of the history; bindings are static once linked, so the expectation is the same. */
      for (int p = 0; p < npending; p++) {
        int v = pending[p];
        linked[v] = 1;
        if (o->a == 3) continue;
        int rc = probe_module (mods[v], v, expect[v], o->a, "right after its link step");
        if (rc == 0) return 0;
        if (rc == 2) interesting = 1;
      }
      npending = 0;
      break;
    }
    }
  }
  /* bindings established at a link step must still hold at the end of the history */
  for (int v = 0; v < nvers; v++)
    if (linked[v]) {
      int rc = probe_module (mods[v], v, expect[v], last_iface, "at the end of the history");
      if (rc == 0) return 0;
      if (rc == 2) interesting = 1;
    }
  n_hist_done++;
  if (VP_TRY) { if (gen_inited) MIR_gen_finish (ctx); MIR_finish (ctx); VP_END; }
  vp_err_armed = 0;
  return 1 + interesting;
}

/* ---------------- exhaustive universe: 5 fixed versions, 13-op menu */
static void exh_universe (void) {
  memset (vers, 0, sizeof vers);
  nvers = 5;
  vers[0].role[0] = R_EXPORT; vers[0].order[0] = 0;                          /* m0: f0 def, export */
  vers[1].role[0] = R_EXPORT; vers[1].order[0] = 2; vers[1].role[3] = R_EXPORT; /* m1: forward/export/def f0 ; exports d0 */
  vers[2].role[0] = R_IMPORT; vers[2].callkind[0] = 0; vers[2].role[3] = R_IMPORT; /* m2: imports f0 (call) and d0 */
  vers[3].role[0] = R_IMPORT; vers[3].callkind[0] = 1;                          /* m3: imports f0 (inline) */
  vers[4].role[0] = R_PRIVATE; vers[4].order[0] = 1; vers[4].role[3] = R_EXPORT; vers[4].order[3] = 1; /* m4: private f0, exports d0 */
}
/* the interface of link operations is fixed per history (one context = one execution interface, as every client of
   the library uses it); it is filled in from the case parameters */
static const hop_t menu[] = {{O_LOAD, 0, 0}, {O_LOAD, 1, 0}, {O_LOAD, 2, 0}, {O_LOAD, 3, 0}, {O_LOAD, 4, 0}, {O_EXT, 0, 0}, {O_EXT, 0, 1}, {O_EXT, 3, 2},
                             {O_LINK, -1, 0}, {O_LINK, -1, 1}, {O_PERM, 1, 0}, {O_PERM, 0, 0}};
#define NMENU ((int) (sizeof menu / sizeof menu[0]))
static long ipow (long b, int e) { long r = 1; while (e-- > 0) r *= b; return r; }

static void rnd_version (vp_rng_t *r, version_t *d) {
  memset (d, 0, sizeof *d);
  for (int i = 0; i < NNAMES; i++) {
    int p = (int) vp_below (r, 100);
    d->role[i] = p < 30 ? R_NONE : p < 55 ? R_EXPORT : p < 65 ? R_PRIVATE : R_IMPORT;
    d->order[i] = (int) vp_below (r, 3);
    if (d->role[i] == R_PRIVATE) d->order[i] &= 1;
    d->callkind[i] = (int) vp_below (r, 3);
  }
  d->filler = vp_chance (r, 30) ? (int) vp_range (r, 20, 120) : (int) vp_below (r, 4);
}

int main (int argc, char **argv) {
  vp_args_t a = vp_parse_args (argc, argv);
  int len = atoi (a.extra[0] ? a.extra : "4"), exh_iface = 0;
  for (int i = 1; i + 1 < argc; i++) if (!strcmp (argv[i], "--iface")) exh_iface = atoi (argv[i + 1]);
  for (int i = 1; i < argc; i++)
    if (!strcmp (argv[i], "--query")) { printf ("TOTAL %ld\n", ipow (NMENU, len)); return 0; }
  long done = 0, legal = 0, nontriv = 0;
  for (long c = a.start; c < a.start + a.count; c++) {
    hop_t ops[24]; int n = 0;
    cur_case = c;
    vp_case_begin (c);
    if (!strcmp (a.mode, "exh")) {
      exh_universe ();
      long s = c;
      for (int i = 0; i < len; i++) { ops[n++] = menu[s % NMENU]; s /= NMENU; }
      /* always end with a link so that loaded modules get probed */
      if (ops[n - 1].k != O_LINK) ops[n++] = (hop_t){O_LINK, -1, 0};
      for (int i = 0; i < n; i++) if (ops[i].k == O_LINK) ops[i].a = exh_iface;
    } else {
      vp_rng_t r = vp_case_rng (a.seed, 0x1300, c);
      nvers = (int) vp_range (&r, 2, MAXV);
      for (int v = 0; v < nvers; v++) rnd_version (&r, &vers[v]);
      int want = (int) vp_range (&r, 3, 14), next_load = 0, iface = (int) vp_below (&r, 4);
      int order[MAXV]; for (int v = 0; v < nvers; v++) order[v] = v;
      for (int v = nvers - 1; v > 0; v--) { int j = (int) vp_below (&r, v + 1), t = order[v]; order[v] = order[j]; order[j] = t; }
      while (n < want) {
        int p = (int) vp_below (&r, 100);
        if (p < 45 && next_load < nvers) ops[n++] = (hop_t){O_LOAD, order[next_load++], 0};
        else if (p < 62) ops[n++] = (hop_t){O_EXT, (int) vp_below (&r, NNAMES), (int) vp_below (&r, NSTUB)};
        else if (p < 85) ops[n++] = (hop_t){O_LINK, iface, vp_chance (&r, 60)};
        else ops[n++] = (hop_t){O_PERM, vp_chance (&r, 65), 0};
      }
      ops[n++] = (hop_t){O_LINK, iface, vp_chance (&r, 60)};
    }
    if (a.verbose && a.count == 1) {
      printf ("NOTE plan:");
      for (int i = 0; i < n; i++) printf (" %s(%d,%d)", ops[i].k == O_LOAD ? "load" : ops[i].k == O_EXT ? "ext" : ops[i].k == O_LINK ? "link" : "perm", ops[i].a, ops[i].b);
      printf ("\n");
      for (int v = 0; v < nvers; v++) { gen_version_text (v); printf ("NOTE m%d text:\n%s\n", v, text); }
      fflush (stdout);
    }
    int rc = run_history (ops, n);
    done++;
    if (rc >= 1) legal++;
    if (rc == 2) nontriv++;
    if (a.verbose && a.count == 1) printf ("NOTE history: %s\n", hist);
  }
  if (a.start == 0) vp_sample ("%s history: %s", a.mode, hist);
  printf ("EV cases %ld\nEV cases_%s %ld\nEV legal_histories %ld\nEV nontrivial %ld\nEV probes %ld\nEV links %ld\nEV expected_errors_seen %ld\nEV resolver_bindings %ld\nEV permitted_redefinitions %ld\nEV rebindings %ld\nEV unspecified_histories %ld\nEV histories_completed %ld\n",
          done, a.mode, done, legal, nontriv, n_probes, n_links, n_expected_errors, n_resolver_binds, n_redef_permitted, n_rebind, n_unspec_hist, n_hist_done);
  return 0;
}
