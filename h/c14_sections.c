/* C14: after load + link every named data/bss/ref/lref/expr item followed by anonymous ones is one contiguous block in
   declaration order with no gaps, correctly initialised.  The expected layout is computed here from what was declared. */
#include "vp_mir.h"
#include <math.h>

enum ik { I_DATA, I_BSS, I_REF, I_LREF, I_EXPR, I_BREAK };
typedef struct {
  enum ik kind;
  int named;
  MIR_type_t type;      /* data / expr result type */
  size_t nel;           /* data elements / bss length */
  uint8_t *bytes;       /* data: declared bytes ; expr: expected value bytes */
  size_t size;          /* size in the section */
  int ref_kind;         /* 0 earlier data item, 1 later data item (via forward), 2 function, 3 import of external, 4 import of other module's data, 5 own function via forward */
  int ref_target;       /* index into decl[] for 0/1 */
  int64_t disp;
  int lab1, lab2;       /* lref: label indexes in the label function (lab2 = -1: single) */
  MIR_item_t item;
  char name[24];
} decl_t;

#define MAXD 64
static decl_t decl[MAXD];
static int ndecl, labf_pos;
static long cur_case;
static long n_sections, n_items_checked, n_gap_checks, n_lref_addr_ok, n_lref_diff_ok, n_expr_ok, n_ref_ok, n_bss_ok, n_data_ok;
static uint64_t type_mask;

static int64_t ext_fn (void) { return 77; }
static int64_t ext_var[2] = {5, 6};

static size_t tsize (MIR_type_t t) {
  switch (t) { case MIR_T_I8: case MIR_T_U8: return 1; case MIR_T_I16: case MIR_T_U16: return 2; case MIR_T_I32: case MIR_T_U32: case MIR_T_F: return 4; case MIR_T_LD: return 16; default: return 8; }
}
static uint8_t pool[1 << 20]; static size_t pool_used;
static uint8_t *palloc (size_t n) { uint8_t *p = pool + pool_used; pool_used += (n + 15) & ~(size_t) 15; if (pool_used > sizeof pool) { fprintf (stderr, "pool\n"); exit (3); } memset (p, 0, n); return p; }

#define NLABS 4
/* the function whose labels lref items refer to: returns which label was reached via jmpi through table entry `a`;
   with a == 100+k returns laddr(Lk) (as seen by the executing engine) so that differences can be checked */
static const char *labfunc_fmt =
  "labf: func i64, i64:a, i64:tab\n"
  " local i64:p, i64:r\n"
  " bge Laddr, a, 100\n"
  " mov p, p:(tab, a, 8)\n"
  " jmpi p\n"
  "L0: mov r, 1000\n ret r\n"
  "L1: mov r, 1001\n ret r\n"
  "L2: mov r, 1002\n ret r\n"
  "L3: mov r, 1003\n ret r\n"
  "Laddr: sub a, a, 100\n"
  " bne La1, a, 0\n laddr r, L0\n ret r\n"
  "La1: bne La2, a, 1\n laddr r, L1\n ret r\n"
  "La2: bne La3, a, 2\n laddr r, L2\n ret r\n"
  "La3: laddr r, L3\n ret r\n"
  " endfunc\n";

static char text[1 << 18];
static int tlen;
static void T (const char *fmt, ...) { va_list ap; va_start (ap, fmt); tlen += vsnprintf (text + tlen, sizeof text - tlen, fmt, ap); va_end (ap); }

/* The module is written as MIR text (and built from it by the scanner), the other module (exports odat/ofn) too. */
static void gen_case (vp_rng_t *r) {
  static const MIR_type_t dt[] = {MIR_T_I8, MIR_T_U8, MIR_T_I16, MIR_T_U16, MIR_T_I32, MIR_T_U32, MIR_T_I64, MIR_T_U64, MIR_T_F, MIR_T_D, MIR_T_LD, MIR_T_P};
  static const MIR_type_t et[] = {MIR_T_I8, MIR_T_U8, MIR_T_I16, MIR_T_U16, MIR_T_I32, MIR_T_U32, MIR_T_I64, MIR_T_U64, MIR_T_P, MIR_T_F, MIR_T_D, MIR_T_LD};
  ndecl = 0; pool_used = 0;
  int n = (int) vp_range (r, 3, 40), uniq = 0;
  for (int i = 0; i < n && ndecl < MAXD - 2; i++) {
    decl_t *d = &decl[ndecl];
    memset (d, 0, sizeof *d);
    int w = (int) vp_below (r, 100);
    d->named = i == 0 || vp_chance (r, 25);
    snprintf (d->name, sizeof d->name, "it%d", uniq++);
    if (w < 6 && i > 0) { d->kind = I_BREAK; ndecl++; continue; }
    if (w < 45) {
      d->kind = I_DATA; d->type = dt[vp_below (r, 12)];
      d->nel = (size_t[]){1, 1, 2, 3, 7, 8, 9, 1000}[vp_below (r, 8)];
      d->size = d->nel * tsize (d->type);
      d->bytes = palloc (d->size);
      for (size_t k = 0; k < d->nel; k++) {
        uint8_t *e = d->bytes + k * tsize (d->type);
        switch (d->type) {
        case MIR_T_F: { float f = (float) ((int64_t) vp_below (r, 2000) - 1000) / 8.0f; memcpy (e, &f, 4); break; }
        case MIR_T_D: { double f = (double) ((int64_t) vp_below (r, 2000000) - 1000000) / 64.0; memcpy (e, &f, 8); break; }
        case MIR_T_LD: { long double f = (long double) ((int64_t) vp_below (r, 2000000) - 1000000) / 16.0L; memcpy (e, &f, 10); break; }
        default: { uint64_t v = vp_next (r); if (d->type == MIR_T_P) v &= 0xffffffffffffull; memcpy (e, &v, tsize (d->type)); break; }
        }
      }
      type_mask |= 1ull << d->type;
    } else if (w < 58) {
      d->kind = I_BSS; d->nel = (size_t[]){0, 1, 3, 8, 13, 100, 5000}[vp_below (r, 7)]; d->size = d->nel;
    } else if (w < 78) {
      d->kind = I_REF; d->size = 8;
      d->disp = (int64_t[]){0, 0, 8, -8, 4, 1000000, -1}[vp_below (r, 7)];
      d->ref_kind = (int) vp_below (r, 6);
      if (d->ref_kind == 0) { /* an earlier named data item */
        int cand[MAXD], nc = 0;
        for (int k = 0; k < ndecl; k++) if (decl[k].named && decl[k].kind != I_BREAK) cand[nc++] = k;
        if (nc == 0) d->ref_kind = 2; else d->ref_target = cand[vp_below (r, nc)];
      }
      if (d->ref_kind == 1) d->ref_target = -1; /* fixed up below: a later named item */
    } else if (w < 88) {
      d->kind = I_LREF; d->size = 8;
      d->lab1 = (int) vp_below (r, NLABS);
      d->lab2 = vp_chance (r, 40) ? (int) vp_below (r, NLABS) : -1;
      d->disp = d->lab2 < 0 ? 0 : (int64_t[]){0, 8, -16, 100}[vp_below (r, 4)];
    } else {
      d->kind = I_EXPR; d->type = et[vp_below (r, 12)]; d->size = tsize (d->type);
      d->bytes = palloc (16);
      int64_t c = (int64_t) vp_next (r);
      if (d->type == MIR_T_F) { float v = (float) (c % 1000) * 0.5f + 1.25f; memcpy (d->bytes, &v, 4); d->disp = c % 1000; }
      else if (d->type == MIR_T_D) { double v = (double) (c % 100000) * 0.25 + 3.5; memcpy (d->bytes, &v, 8); d->disp = c % 100000; }
      else if (d->type == MIR_T_LD) { long double v = (long double) (c % 100000) * 0.125L + 7.0L; memcpy (d->bytes, &v, 10); d->disp = c % 100000; }
      else { int64_t v = (c + 12345) ^ 0x5a5a; memcpy (d->bytes, &v, d->size); d->disp = c; }
      type_mask |= 1ull << (32 + d->type);
    }
    ndecl++;
  }
  /* later-item refs: pick a later named item, else turn into function ref */
  for (int i = 0; i < ndecl; i++)
    if (decl[i].kind == I_REF && decl[i].ref_kind == 1) {
      int cand[MAXD], nc = 0;
      for (int k = i + 1; k < ndecl; k++) if (decl[k].named && decl[k].kind != I_BREAK) cand[nc++] = k;
      if (nc == 0) decl[i].ref_kind = 5; else decl[i].ref_target = cand[vp_below (r, nc)];
    }
  /* ---- text */
  tlen = 0;
  T ("om: module\nexport odat, ofn\nodat: i64 4242, 4343\nofn: func i64\n ret 9\n endfunc\n endmodule\n");
  T ("m: module\nimport ext_fn, ext_var, odat, ofn\nforward labf\n");
  /* a later item is referenced through a forward or an export declaration placed before its definition */
  for (int i = 0; i < ndecl; i++) if (decl[i].kind == I_REF && decl[i].ref_kind == 1) T ("%s %s\n", vp_chance (r, 50) ? "forward" : "export", decl[decl[i].ref_target].name);
  labf_pos = (int) vp_below (r, ndecl + 1);
  /* expr functions first (an expr item needs its function defined) */
  for (int i = 0; i < ndecl; i++)
    if (decl[i].kind == I_EXPR) {
      decl_t *d = &decl[i];
      const char *tn = d->type == MIR_T_F ? "f" : d->type == MIR_T_D ? "d" : d->type == MIR_T_LD ? "ld" : "i64";
      static const char *rtn[] = {"i8", "u8", "i16", "u16", "i32", "u32", "i64", "u64", "f", "d", "ld", "p"};
      T ("ex%d: func %s\n local %s:v\n", i, rtn[d->type], tn);
      if (d->type == MIR_T_F) T (" i2f v, %ld\n fmul v, v, 0.5f\n fadd v, v, 1.25f\n", (long) d->disp);
      else if (d->type == MIR_T_D) T (" i2d v, %ld\n dmul v, v, 0.25\n dadd v, v, 3.5\n", (long) d->disp);
      else if (d->type == MIR_T_LD) T (" i2ld v, %ld\n ldmul v, v, 0.125L\n ldadd v, v, 7.0L\n", (long) d->disp);
      else T (" mov v, %ld\n add v, v, 12345\n xor v, v, 23130\n", (long) d->disp);
      T (" ret v\n endfunc\n");
    }
  for (int i = 0; i <= ndecl; i++) {
    if (i == labf_pos) T ("%s", labfunc_fmt);
    if (i == ndecl) break;
    decl_t *d = &decl[i];
    if (d->kind == I_BREAK) { T ("pbrk%d: proto i64\n", i); continue; }
    if (d->named) T ("%s:", d->name);
    switch (d->kind) {
    case I_DATA: {
      static const char *tn[] = {"i8", "u8", "i16", "u16", "i32", "u32", "i64", "u64", "f", "d", "ld", "p"};
      T ("\t%s\t", tn[d->type]);
      for (size_t k = 0; k < d->nel; k++) {
        uint8_t *e = d->bytes + k * tsize (d->type);
        switch (d->type) {
        case MIR_T_I8: T ("%d", *(int8_t *) e); break;
        case MIR_T_U8: T ("%u", *(uint8_t *) e); break;
        case MIR_T_I16: T ("%d", *(int16_t *) e); break;
        case MIR_T_U16: T ("%u", *(uint16_t *) e); break;
        case MIR_T_I32: T ("%d", *(int32_t *) e); break;
        case MIR_T_U32: T ("%u", *(uint32_t *) e); break;
        case MIR_T_I64: T ("%lld", (long long) *(int64_t *) e); break;
        case MIR_T_U64: T ("%llu", (unsigned long long) *(uint64_t *) e); break;
        case MIR_T_P: T ("0x%llx", (unsigned long long) *(uint64_t *) e); break;
        case MIR_T_F: T ("%.9ef", (double) *(float *) e); break;
        case MIR_T_D: T ("%.17e", *(double *) e); break;
        default: T ("%.21LeL", *(long double *) e); break;
        }
        if (k + 1 < d->nel) T (", ");
      }
      T ("\n");
      break; }
    case I_BSS: T ("\tbss\t%zu\n", d->nel); break;
    case I_REF: {
      const char *tg = d->ref_kind <= 1 ? decl[d->ref_target].name : d->ref_kind == 2 ? "ofn" : d->ref_kind == 3 ? "ext_var" : d->ref_kind == 4 ? "odat" : "labf";
      T ("\tref\t%s, %lld\n", tg, (long long) d->disp);
      break; }
    case I_LREF:
      if (d->lab2 < 0) T ("\tlref\tL%d\n", d->lab1);
      else T ("\tlref\tL%d, L%d, %lld\n", d->lab1, d->lab2, (long long) d->disp);
      break;
    case I_EXPR: T ("\texpr\tex%d\n", i); break;
    default: break;
    }
  }
  T ("export labf\nendmodule\n");
}

static MIR_item_t find_named (MIR_context_t ctx, MIR_module_t m, const char *name) {
  for (MIR_item_t it = DLIST_HEAD (MIR_item_t, m->items); it != NULL; it = DLIST_NEXT (MIR_item_t, it))
    if (it->item_type != MIR_import_item && it->item_type != MIR_export_item && it->item_type != MIR_forward_item && it->item_type != MIR_proto_item
        && MIR_item_name (ctx, it) != NULL && strcmp (MIR_item_name (ctx, it), name) == 0) return it;
  return NULL;
}
static int is_dataish (MIR_item_t it) { return it->item_type == MIR_data_item || it->item_type == MIR_bss_item || it->item_type == MIR_ref_data_item || it->item_type == MIR_lref_data_item || it->item_type == MIR_expr_data_item; }

static void run_case (long idx, uint64_t seed) {
  vp_rng_t r = vp_case_rng (seed, 0x1400, (uint64_t) idx);
  gen_case (&r);
  int engine = (int) (idx % 3); /* 0 interp 1 gen 2 lazy gen */
  MIR_context_t ctx = vp_new_ctx ();
  MIR_module_t om = NULL, m = NULL;
  if (VP_TRY) {
    MIR_scan_string (ctx, text);
    om = DLIST_HEAD (MIR_module_t, *MIR_get_module_list (ctx)); m = DLIST_NEXT (MIR_module_t, om);
    MIR_load_module (ctx, om); MIR_load_module (ctx, m);
    MIR_load_external (ctx, "ext_fn", ext_fn); MIR_load_external (ctx, "ext_var", ext_var);
    if (engine) { MIR_gen_init (ctx); MIR_gen_set_optimize_level (ctx, (unsigned) (idx / 3 % 4)); }
    MIR_link (ctx, engine == 0 ? MIR_set_interp_interface : engine == 1 ? MIR_set_gen_interface : MIR_set_lazy_gen_interface, NULL);
    VP_END;
  } else { vp_err_armed = 0; vp_viol ("load-link-error", "case=%ld scan/load/link raised %s (%s)\n%s", cur_case, vp_err_name (vp_err_type), vp_err_msg, text); return; }
  /* map declarations to items in order */
  MIR_item_t it = DLIST_HEAD (MIR_item_t, m->items);
  int di = 0;
  for (; it != NULL; it = DLIST_NEXT (MIR_item_t, it)) {
    if (!is_dataish (it)) continue;
    /* literal-pool items (.lc<N>) that link-time simplification adds for FP/string immediates are not declarations */
    if (MIR_item_name (ctx, it) != NULL && strncmp (MIR_item_name (ctx, it), ".lc", 3) == 0) continue;
    while (di < ndecl && decl[di].kind == I_BREAK) di++;
    if (di >= ndecl) { vp_viol ("harness-mismatch", "case=%ld more data items than declared", cur_case); return; }
    decl[di++].item = it;
  }
  while (di < ndecl && decl[di].kind == I_BREAK) di++;
  if (di != ndecl) { vp_viol ("items-missing", "case=%ld %d declared data items but the module has fewer", cur_case, ndecl); return; }
  MIR_item_t labf = find_named (ctx, m, "labf"), odat = find_named (ctx, om, "odat"), ofn = find_named (ctx, om, "ofn");
  /* make sure labf is prepared for execution in its engine: run it once through entry 100 (laddr) */
  int64_t laddr[NLABS];
  static int64_t tab[1]; static int64_t jres; static int64_t got;
  if (VP_TRY) { for (int k = 0; k < NLABS; k++) laddr[k] = ((int64_t (*) (int64_t, void *)) labf->addr) (100 + k, NULL); VP_END; }
  else { vp_err_armed = 0; vp_viol ("labf-error", "case=%ld executing the label function raised %s", cur_case, vp_err_msg); return; }
  /* ---- layout + contents */
  uint8_t *expect_addr = NULL; int in_section = 0;
  for (int i = 0; i < ndecl; i++) {
    decl_t *d = &decl[i];
    if (i == labf_pos) in_section = 0; /* the label function was emitted before this item: another item breaks the section */
    if (d->kind == I_BREAK) { in_section = 0; continue; }
    uint8_t *addr = d->item->addr;
    if (addr == NULL) { vp_viol ("item-not-loaded", "case=%ld item #%d (%s) has no address after load+link\n%s", cur_case, i, d->name, text); return; }
    if (d->named || !in_section) { n_sections++; in_section = 1; }
    else {
      n_gap_checks++;
      if (addr != expect_addr) {
        char fp[64]; static const char *kn[] = {"data", "bss", "ref", "lref", "expr"};
        snprintf (fp, sizeof fp, "section-gap:after-%s", kn[decl[i - 1].kind]);
        vp_viol (fp, "case=%ld item #%d (anonymous %s) is at offset %+ld from where the sizes of its predecessors put it (predecessor #%d: %s of size %zu)\n%s", cur_case, i, kn[d->kind],
                 (long) (addr - expect_addr), i - 1, kn[decl[i - 1].kind], decl[i - 1].size, text);
        return;
      }
    }
    expect_addr = addr + d->size;
    n_items_checked++;
    switch (d->kind) {
    case I_DATA:
      for (size_t k = 0; k < d->nel; k++) {
        size_t es = tsize (d->type);
        if (memcmp (addr + k * es, d->bytes + k * es, d->type == MIR_T_LD ? 10 : es) != 0) {
          vp_viol ("data-bytes", "case=%ld item #%d (%s): element %zu does not hold the declared value\n%s", cur_case, i, d->name, k, text); return; }
      }
      n_data_ok++;
      break;
    case I_BSS: for (size_t k = 0; k < d->nel; k++) if (addr[k] != 0) { vp_viol ("bss-nonzero", "case=%ld bss item #%d: byte %zu is %d\n%s", cur_case, i, k, addr[k], text); return; } n_bss_ok++; break;
    case I_REF: {
      uint8_t *tg = d->ref_kind <= 1 ? (uint8_t *) decl[d->ref_target].item->addr : d->ref_kind == 2 ? (uint8_t *) ofn->addr : d->ref_kind == 3 ? (uint8_t *) ext_var : d->ref_kind == 4 ? (uint8_t *) odat->addr : (uint8_t *) labf->addr;
      uint8_t *got; memcpy (&got, addr, 8);
      if (got != tg + d->disp) { char fp[64]; snprintf (fp, sizeof fp, "ref-value:kind%d", d->ref_kind); vp_viol (fp, "case=%ld ref item #%d holds %p, expected %p%+lld (target kind %d)\n%s", cur_case, i, (void *) got, (void *) tg, (long long) d->disp, d->ref_kind, text); return; }
      n_ref_ok++;
      break; }
    case I_EXPR:
      if (memcmp (addr, d->bytes, d->type == MIR_T_LD ? 10 : d->size) != 0) {
        char fp[64]; snprintf (fp, sizeof fp, "expr-value:type%d", d->type);
        vp_viol (fp, "case=%ld expr item #%d (result type %d) does not hold the value of its function\n%s", cur_case, i, d->type, text); return; }
      n_expr_ok++;
      break;
    case I_LREF: {
      memcpy (&got, addr, 8);
      if (d->lab2 < 0) {
        /* jumping through it must land on the label: build a one-entry table and let labf dispatch */
        int64_t res; tab[0] = got; jres = 0;
        if (VP_TRY) { jres = ((int64_t (*) (int64_t, void *)) labf->addr) (0, tab); VP_END; }
        else { vp_err_armed = 0; vp_viol ("lref-jump-error", "case=%ld jumping through lref item raised an error", cur_case); return; }
        res = jres;
        if (res != 1000 + d->lab1) { vp_viol ("lref-address", "case=%ld jumping through single-label lref item #%d (L%d) reached result %lld (engine %d)\n%s", cur_case, i, d->lab1, (long long) res, engine, text); return; }
        if (got != laddr[d->lab1]) { vp_viol ("lref-address-vs-laddr", "case=%ld lref item #%d holds %llx but laddr of L%d gives %llx (engine %d)", cur_case, i, (long long) got, d->lab1, (long long) laddr[d->lab1], engine); return; }
        n_lref_addr_ok++;
      } else {
        int64_t want = laddr[d->lab1] - laddr[d->lab2] + d->disp;
        if (got != want) {
          char fp[64]; snprintf (fp, sizeof fp, "lref-difference:%s", engine == 0 ? "interp" : "gen");
          vp_viol (fp, "case=%ld two-label lref item #%d (L%d - L%d %+lld) holds %lld but the same engine's laddr values give %lld (engine %s)\n%s", cur_case, i, d->lab1, d->lab2, (long long) d->disp, (long long) got, (long long) want,
                   engine == 0 ? "interp" : engine == 1 ? "gen" : "lazy gen", text);
          return;
        }
        n_lref_diff_ok++;
      }
      break; }
    default: break;
    }
  }
  if (VP_TRY) { if (engine) MIR_gen_finish (ctx); MIR_finish (ctx); VP_END; }
  vp_err_armed = 0;
}

int main (int argc, char **argv) {
  vp_args_t a = vp_parse_args (argc, argv);
  long done = 0;
  for (long c = a.start; c < a.start + a.count; c++) {
    cur_case = c;
    vp_case_begin (c);
    run_case (c, a.seed);
    if (ndecl >= 6) vp_dist (vp_hash_mix ((uint64_t) c, a.seed));
    done++;
    if (a.verbose && a.count == 1) printf ("NOTE text:\n%s\n", text);
  }
  if (a.start == 0) vp_sample ("%.4000s", text);
  printf ("EV cases %ld\nEV sections %ld\nEV items_checked %ld\nEV adjacency_checks %ld\nEV data_ok %ld\nEV bss_ok %ld\nEV ref_ok %ld\nEV expr_ok %ld\nEV lref_address_ok %ld\nEV lref_difference_ok %ld\n", done, n_sections,
          n_items_checked, n_gap_checks, n_data_ok, n_bss_ok, n_ref_ok, n_expr_ok, n_lref_addr_ok, n_lref_diff_ok);
  printf ("MAX type_mask %llu\n", (unsigned long long) type_mask);
  return 0;
}
