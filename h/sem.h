/* Reference semantics of MIR instructions, transcribed from MIR.md (DESIGN.md appendix B).  Independent of MIR's
   loader, simplifier, interpreter and generator.  Shared by C02 (per-instruction grid) and the program reference model. */
#ifndef VP_SEM_H
#define VP_SEM_H
#include <stdint.h>
#include <math.h>
#include "mir.h"

typedef union { int64_t i; uint64_t u; float f; double d; long double ld; } rv_t;

/* result classes */
#define SEM_OK 1
#define SEM_UNDEF 0 /* MIR.md / target leave it undefined for these operand values: never generated, never judged */

/* 1 if the opcode is a 32-bit ("S") integer insn: only the low 32 bits of the result are defined */
static int sem_is32 (MIR_insn_code_t c) {
  switch (c) {
  case MIR_NEGS: case MIR_ADDS: case MIR_SUBS: case MIR_MULS: case MIR_DIVS: case MIR_UDIVS: case MIR_MODS: case MIR_UMODS:
  case MIR_ANDS: case MIR_ORS: case MIR_XORS: case MIR_LSHS: case MIR_RSHS: case MIR_URSHS:
  case MIR_ADDOS: case MIR_SUBOS: case MIR_MULOS: case MIR_UMULOS: return 1;
  default: return 0;
  }
}

/* two-operand integer insns: res = op a */
static int sem_int2 (MIR_insn_code_t c, int64_t a, int64_t *r) {
  switch (c) {
  case MIR_MOV: *r = a; return SEM_OK;
  case MIR_EXT8: *r = (int8_t) a; return SEM_OK;
  case MIR_EXT16: *r = (int16_t) a; return SEM_OK;
  case MIR_EXT32: *r = (int32_t) a; return SEM_OK;
  case MIR_UEXT8: *r = (uint8_t) a; return SEM_OK;
  case MIR_UEXT16: *r = (uint16_t) a; return SEM_OK;
  case MIR_UEXT32: *r = (uint32_t) a; return SEM_OK;
  case MIR_NEG: *r = (int64_t) (0 - (uint64_t) a); return SEM_OK;
  case MIR_NEGS: *r = (int32_t) (0 - (uint32_t) a); return SEM_OK;
  default: return -1;
  }
}

/* three-operand integer insns incl. comparisons and overflow insns.  *so / *uo: signed / unsigned overflow flags */
static int sem_int3 (MIR_insn_code_t c, int64_t a, int64_t b, int64_t *r, int *so, int *uo) {
  uint64_t ua = (uint64_t) a, ub = (uint64_t) b;
  int32_t sa = (int32_t) a, sb = (int32_t) b;
  uint32_t wa = (uint32_t) a, wb = (uint32_t) b;
  int dso = 0, duo = 0;
  if (so == NULL) so = &dso;
  if (uo == NULL) uo = &duo;
  switch (c) {
  case MIR_ADD: *r = (int64_t) (ua + ub); return SEM_OK;
  case MIR_SUB: *r = (int64_t) (ua - ub); return SEM_OK;
  case MIR_MUL: *r = (int64_t) (ua * ub); return SEM_OK;
  case MIR_ADDS: *r = (int32_t) (wa + wb); return SEM_OK;
  case MIR_SUBS: *r = (int32_t) (wa - wb); return SEM_OK;
  case MIR_MULS: *r = (int32_t) (wa * wb); return SEM_OK;
  case MIR_DIV: if (b == 0 || (a == INT64_MIN && b == -1)) return SEM_UNDEF; *r = a / b; return SEM_OK;
  case MIR_MOD: if (b == 0 || (a == INT64_MIN && b == -1)) return SEM_UNDEF; *r = a % b; return SEM_OK;
  case MIR_UDIV: if (ub == 0) return SEM_UNDEF; *r = (int64_t) (ua / ub); return SEM_OK;
  case MIR_UMOD: if (ub == 0) return SEM_UNDEF; *r = (int64_t) (ua % ub); return SEM_OK;
  case MIR_DIVS: if (sb == 0 || (sa == INT32_MIN && sb == -1)) return SEM_UNDEF; *r = sa / sb; return SEM_OK;
  case MIR_MODS: if (sb == 0 || (sa == INT32_MIN && sb == -1)) return SEM_UNDEF; *r = sa % sb; return SEM_OK;
  case MIR_UDIVS: if (wb == 0) return SEM_UNDEF; *r = (int32_t) (wa / wb); return SEM_OK;
  case MIR_UMODS: if (wb == 0) return SEM_UNDEF; *r = (int32_t) (wa % wb); return SEM_OK;
  case MIR_AND: *r = a & b; return SEM_OK;
  case MIR_OR: *r = a | b; return SEM_OK;
  case MIR_XOR: *r = a ^ b; return SEM_OK;
  case MIR_ANDS: *r = (int32_t) (wa & wb); return SEM_OK;
  case MIR_ORS: *r = (int32_t) (wa | wb); return SEM_OK;
  case MIR_XORS: *r = (int32_t) (wa ^ wb); return SEM_OK;
  case MIR_LSH: if (ub >= 64) return SEM_UNDEF; *r = (int64_t) (ua << ub); return SEM_OK;
  case MIR_RSH: if (ub >= 64) return SEM_UNDEF; *r = a < 0 ? (int64_t) ~(~ua >> ub) : (int64_t) (ua >> ub); return SEM_OK;
  case MIR_URSH: if (ub >= 64) return SEM_UNDEF; *r = (int64_t) (ua >> ub); return SEM_OK;
  case MIR_LSHS: if (ub >= 32) return SEM_UNDEF; *r = (int32_t) (wa << ub); return SEM_OK;
  case MIR_RSHS: if (ub >= 32) return SEM_UNDEF; *r = sa < 0 ? (int32_t) ~(~wa >> ub) : (int32_t) (wa >> ub); return SEM_OK;
  case MIR_URSHS: if (ub >= 32) return SEM_UNDEF; *r = (int32_t) (wa >> ub); return SEM_OK;
  case MIR_EQ: *r = a == b; return SEM_OK;
  case MIR_NE: *r = a != b; return SEM_OK;
  case MIR_LT: *r = a < b; return SEM_OK;
  case MIR_LE: *r = a <= b; return SEM_OK;
  case MIR_GT: *r = a > b; return SEM_OK;
  case MIR_GE: *r = a >= b; return SEM_OK;
  case MIR_ULT: *r = ua < ub; return SEM_OK;
  case MIR_ULE: *r = ua <= ub; return SEM_OK;
  case MIR_UGT: *r = ua > ub; return SEM_OK;
  case MIR_UGE: *r = ua >= ub; return SEM_OK;
  case MIR_EQS: *r = sa == sb; return SEM_OK;
  case MIR_NES: *r = sa != sb; return SEM_OK;
  case MIR_LTS: *r = sa < sb; return SEM_OK;
  case MIR_LES: *r = sa <= sb; return SEM_OK;
  case MIR_GTS: *r = sa > sb; return SEM_OK;
  case MIR_GES: *r = sa >= sb; return SEM_OK;
  case MIR_ULTS: *r = wa < wb; return SEM_OK;
  case MIR_ULES: *r = wa <= wb; return SEM_OK;
  case MIR_UGTS: *r = wa > wb; return SEM_OK;
  case MIR_UGES: *r = wa >= wb; return SEM_OK;
  case MIR_ADDO: { int64_t t; *so = __builtin_add_overflow (a, b, &t); uint64_t u; *uo = __builtin_add_overflow (ua, ub, &u); *r = (int64_t) u; return SEM_OK; }
  case MIR_SUBO: { int64_t t; *so = __builtin_sub_overflow (a, b, &t); uint64_t u; *uo = __builtin_sub_overflow (ua, ub, &u); *r = (int64_t) u; return SEM_OK; }
  case MIR_ADDOS: { int32_t t; *so = __builtin_add_overflow (sa, sb, &t); uint32_t u; *uo = __builtin_add_overflow (wa, wb, &u); *r = (int32_t) u; return SEM_OK; }
  case MIR_SUBOS: { int32_t t; *so = __builtin_sub_overflow (sa, sb, &t); uint32_t u; *uo = __builtin_sub_overflow (wa, wb, &u); *r = (int32_t) u; return SEM_OK; }
  case MIR_MULO: { int64_t t; *so = __builtin_mul_overflow (a, b, &t); *uo = -1; *r = (int64_t) (ua * ub); return SEM_OK; }
  case MIR_MULOS: { int32_t t; *so = __builtin_mul_overflow (sa, sb, &t); *uo = -1; *r = (int32_t) (wa * wb); return SEM_OK; }
  case MIR_UMULO: { uint64_t u; *uo = __builtin_mul_overflow (ua, ub, &u); *so = -1; *r = (int64_t) u; return SEM_OK; }
  case MIR_UMULOS: { uint32_t u; *uo = __builtin_mul_overflow (wa, wb, &u); *so = -1; *r = (int32_t) u; return SEM_OK; }
  default: return -1;
  }
}

/* compare-and-branch: taken? */
static int sem_ibranch (MIR_insn_code_t c, int64_t a, int64_t b, int *taken) {
  int64_t r; MIR_insn_code_t cc;
  switch (c) {
  case MIR_BT: *taken = a != 0; return SEM_OK;
  case MIR_BF: *taken = a == 0; return SEM_OK;
  case MIR_BTS: *taken = (int32_t) a != 0; return SEM_OK;
  case MIR_BFS: *taken = (int32_t) a == 0; return SEM_OK;
  case MIR_BEQ: cc = MIR_EQ; break; case MIR_BEQS: cc = MIR_EQS; break; case MIR_BNE: cc = MIR_NE; break; case MIR_BNES: cc = MIR_NES; break;
  case MIR_BLT: cc = MIR_LT; break; case MIR_BLTS: cc = MIR_LTS; break; case MIR_UBLT: cc = MIR_ULT; break; case MIR_UBLTS: cc = MIR_ULTS; break;
  case MIR_BLE: cc = MIR_LE; break; case MIR_BLES: cc = MIR_LES; break; case MIR_UBLE: cc = MIR_ULE; break; case MIR_UBLES: cc = MIR_ULES; break;
  case MIR_BGT: cc = MIR_GT; break; case MIR_BGTS: cc = MIR_GTS; break; case MIR_UBGT: cc = MIR_UGT; break; case MIR_UBGTS: cc = MIR_UGTS; break;
  case MIR_BGE: cc = MIR_GE; break; case MIR_BGES: cc = MIR_GES; break; case MIR_UBGE: cc = MIR_UGE; break; case MIR_UBGES: cc = MIR_UGES; break;
  default: return -1;
  }
  sem_int3 (cc, a, b, &r, NULL, NULL);
  *taken = (int) r;
  return SEM_OK;
}

/* FP comparisons (C-like: anything with a NaN is false except NE).  k: 0 float 1 double 2 long double; rel: EQ NE LT LE GT GE = 0..5 */
static int sem_fcmp (int rel, long double a, long double b) {
  switch (rel) { case 0: return a == b; case 1: return a != b; case 2: return a < b; case 3: return a <= b; case 4: return a > b; default: return a >= b; }
}
static int sem_fp_rel (MIR_insn_code_t c, int *kind, int *rel, int *branch) {
  static const struct { MIR_insn_code_t c; int k, r, b; } t[] = {
    {MIR_FEQ, 0, 0, 0}, {MIR_FNE, 0, 1, 0}, {MIR_FLT, 0, 2, 0}, {MIR_FLE, 0, 3, 0}, {MIR_FGT, 0, 4, 0}, {MIR_FGE, 0, 5, 0},
    {MIR_DEQ, 1, 0, 0}, {MIR_DNE, 1, 1, 0}, {MIR_DLT, 1, 2, 0}, {MIR_DLE, 1, 3, 0}, {MIR_DGT, 1, 4, 0}, {MIR_DGE, 1, 5, 0},
    {MIR_LDEQ, 2, 0, 0}, {MIR_LDNE, 2, 1, 0}, {MIR_LDLT, 2, 2, 0}, {MIR_LDLE, 2, 3, 0}, {MIR_LDGT, 2, 4, 0}, {MIR_LDGE, 2, 5, 0},
    {MIR_FBEQ, 0, 0, 1}, {MIR_FBNE, 0, 1, 1}, {MIR_FBLT, 0, 2, 1}, {MIR_FBLE, 0, 3, 1}, {MIR_FBGT, 0, 4, 1}, {MIR_FBGE, 0, 5, 1},
    {MIR_DBEQ, 1, 0, 1}, {MIR_DBNE, 1, 1, 1}, {MIR_DBLT, 1, 2, 1}, {MIR_DBLE, 1, 3, 1}, {MIR_DBGT, 1, 4, 1}, {MIR_DBGE, 1, 5, 1},
    {MIR_LDBEQ, 2, 0, 1}, {MIR_LDBNE, 2, 1, 1}, {MIR_LDBLT, 2, 2, 1}, {MIR_LDBLE, 2, 3, 1}, {MIR_LDBGT, 2, 4, 1}, {MIR_LDBGE, 2, 5, 1}};
  for (unsigned i = 0; i < sizeof t / sizeof t[0]; i++) if (t[i].c == c) { *kind = t[i].k; *rel = t[i].r; *branch = t[i].b; return 1; }
  return 0;
}

/* FP arithmetic: k 0/1/2 ; op 0 add 1 sub 2 mul 3 div 4 neg */
static rv_t sem_farith (int k, int op, rv_t a, rv_t b) {
  rv_t r; memset (&r, 0, sizeof r);
  switch (k) {
  case 0: r.f = op == 0 ? a.f + b.f : op == 1 ? a.f - b.f : op == 2 ? a.f * b.f : op == 3 ? a.f / b.f : -a.f; break;
  case 1: r.d = op == 0 ? a.d + b.d : op == 1 ? a.d - b.d : op == 2 ? a.d * b.d : op == 3 ? a.d / b.d : -a.d; break;
  default: r.ld = op == 0 ? a.ld + b.ld : op == 1 ? a.ld - b.ld : op == 2 ? a.ld * b.ld : op == 3 ? a.ld / b.ld : -a.ld; break;
  }
  return r;
}
static int sem_fp_arith_code (MIR_insn_code_t c, int *k, int *op) {
  static const struct { MIR_insn_code_t c; int k, op; } t[] = {
    {MIR_FADD, 0, 0}, {MIR_FSUB, 0, 1}, {MIR_FMUL, 0, 2}, {MIR_FDIV, 0, 3}, {MIR_FNEG, 0, 4},
    {MIR_DADD, 1, 0}, {MIR_DSUB, 1, 1}, {MIR_DMUL, 1, 2}, {MIR_DDIV, 1, 3}, {MIR_DNEG, 1, 4},
    {MIR_LDADD, 2, 0}, {MIR_LDSUB, 2, 1}, {MIR_LDMUL, 2, 2}, {MIR_LDDIV, 2, 3}, {MIR_LDNEG, 2, 4}};
  for (unsigned i = 0; i < sizeof t / sizeof t[0]; i++) if (t[i].c == c) { *k = t[i].k; *op = t[i].op; return 1; }
  return 0;
}

/* conversions.  src/dst kinds: 'i' integer, 0/1/2 fp kinds.  Returns SEM_UNDEF for FP->int of NaN / out of range */
static int sem_conv (MIR_insn_code_t c, rv_t a, rv_t *r, int *srck, int *dstk) {
  memset (r, 0, sizeof *r);
  switch (c) {
  case MIR_I2F: *srck = 'i'; *dstk = 0; r->f = (float) a.i; return SEM_OK;
  case MIR_I2D: *srck = 'i'; *dstk = 1; r->d = (double) a.i; return SEM_OK;
  case MIR_I2LD: *srck = 'i'; *dstk = 2; r->ld = (long double) a.i; return SEM_OK;
  case MIR_UI2F: *srck = 'i'; *dstk = 0; r->f = (float) a.u; return SEM_OK;
  case MIR_UI2D: *srck = 'i'; *dstk = 1; r->d = (double) a.u; return SEM_OK;
  case MIR_UI2LD: *srck = 'i'; *dstk = 2; r->ld = (long double) a.u; return SEM_OK;
  case MIR_F2I: *srck = 0; *dstk = 'i'; if (!(a.f > -9.2e18f && a.f < 9.2e18f)) return SEM_UNDEF; r->i = (int64_t) a.f; return SEM_OK;
  case MIR_D2I: *srck = 1; *dstk = 'i'; if (!(a.d > -9.2e18 && a.d < 9.2e18)) return SEM_UNDEF; r->i = (int64_t) a.d; return SEM_OK;
  case MIR_LD2I: *srck = 2; *dstk = 'i'; if (!(a.ld > -9.2e18L && a.ld < 9.2e18L)) return SEM_UNDEF; r->i = (int64_t) a.ld; return SEM_OK;
  case MIR_F2D: *srck = 0; *dstk = 1; r->d = (double) a.f; return SEM_OK;
  case MIR_F2LD: *srck = 0; *dstk = 2; r->ld = (long double) a.f; return SEM_OK;
  case MIR_D2F: *srck = 1; *dstk = 0; r->f = (float) a.d; return SEM_OK;
  case MIR_D2LD: *srck = 1; *dstk = 2; r->ld = (long double) a.d; return SEM_OK;
  case MIR_LD2F: *srck = 2; *dstk = 0; r->f = (float) a.ld; return SEM_OK;
  case MIR_LD2D: *srck = 2; *dstk = 1; r->d = (double) a.ld; return SEM_OK;
  case MIR_FMOV: *srck = 0; *dstk = 0; r->f = a.f; return SEM_OK;
  case MIR_DMOV: *srck = 1; *dstk = 1; r->d = a.d; return SEM_OK;
  case MIR_LDMOV: *srck = 2; *dstk = 2; r->ld = a.ld; return SEM_OK;
  default: return -1;
  }
}

/* memory: load with extension / store with truncation */
static int64_t sem_load_int (MIR_type_t t, const void *p) {
  switch (t) {
  case MIR_T_I8: { int8_t v; memcpy (&v, p, 1); return v; }
  case MIR_T_U8: { uint8_t v; memcpy (&v, p, 1); return v; }
  case MIR_T_I16: { int16_t v; memcpy (&v, p, 2); return v; }
  case MIR_T_U16: { uint16_t v; memcpy (&v, p, 2); return v; }
  case MIR_T_I32: { int32_t v; memcpy (&v, p, 4); return v; }
  case MIR_T_U32: { uint32_t v; memcpy (&v, p, 4); return v; }
  default: { int64_t v; memcpy (&v, p, 8); return v; }
  }
}
static size_t sem_type_size (MIR_type_t t) {
  switch (t) { case MIR_T_I8: case MIR_T_U8: return 1; case MIR_T_I16: case MIR_T_U16: return 2; case MIR_T_I32: case MIR_T_U32: case MIR_T_F: return 4; case MIR_T_LD: return 10; default: return 8; }
}
static void sem_store_int (MIR_type_t t, void *p, int64_t v) { memcpy (p, &v, sem_type_size (t)); }
/* narrowing + extension of an integer by a prototype/result type */
static int64_t sem_narrow (MIR_type_t t, int64_t v) {
  switch (t) {
  case MIR_T_I8: return (int8_t) v; case MIR_T_U8: return (uint8_t) v; case MIR_T_I16: return (int16_t) v; case MIR_T_U16: return (uint16_t) v;
  case MIR_T_I32: return (int32_t) v; case MIR_T_U32: return (uint32_t) v; default: return v;
  }
}
#endif
