"""Shared orchestration: sharded harness runs, violation/known-finding protocol, evidence files."""
import json
import os
import re
import signal
import subprocess
import sys
import shutil
import tempfile
import time
from concurrent.futures import ThreadPoolExecutor

VERIF = os.path.dirname(os.path.dirname(os.path.abspath(__file__)))
NCPU = int(os.environ.get("VERIF_JOBS", str(os.cpu_count() or 4)))

ASAN_ENV = {
    "ASAN_OPTIONS": "abort_on_error=1:detect_leaks=0:allocator_may_return_null=1:handle_segv=1:"
                    "detect_stack_use_after_return=0:print_summary=1",
    "UBSAN_OPTIONS": "print_stacktrace=1:halt_on_error=1",
}


def seed():
    try:
        return int(os.environ.get("VERIF_SEED", "1"))
    except ValueError:
        return 1


class Result:
    """Aggregated observations of one check run."""

    def __init__(self, prop):
        self.prop = prop
        self.counters = {}
        self.samples = []
        self.viol = {}  # fingerprint -> dict(detail, case, cmd, n)
        self.discarded = {}
        self.inconclusive = []
        self.notes = []
        self.distinct = set()
        self.t0 = time.time()

    def add_counter(self, k, v):
        self.counters[k] = self.counters.get(k, 0) + v

    def max_counter(self, k, v):
        self.counters[k] = max(self.counters.get(k, 0), v)

    def add_viol(self, fp, detail, case=None, cmd=None):
        if fp in self.viol:
            self.viol[fp]["n"] += 1
            return
        self.viol[fp] = {"detail": detail, "case": case, "cmd": cmd, "n": 1}

    def merge_lines(self, lines, cmd=None, viol_filter=None, fp_suffix=None):
        """Parse harness protocol lines.
        EV name n          counter += n
        MAX name n         counter = max
        DIST hexhash       a distinct non-trivial case signature
        SAMPLE text        sample (first few kept)
        DISCARD reason     a dropped (inconclusive) case
        VIOL fp | detail   violation with fingerprint fp (case=<n> inside detail optional)
        """
        for ln in lines:
            if ln.startswith("EV "):
                _, k, v = ln.split(None, 2)
                self.add_counter(k, int(v))
            elif ln.startswith("MAX "):
                _, k, v = ln.split(None, 2)
                self.max_counter(k, int(v))
            elif ln.startswith("DIST "):
                self.distinct.add(ln[5:].strip())
            elif ln.startswith("SAMPLE "):
                if len(self.samples) < 6:
                    self.samples.append(ln[7:].replace("\\n", "\n"))
            elif ln.startswith("DISCARD "):
                r = ln[8:].strip()
                self.discarded[r] = self.discarded.get(r, 0) + 1
            elif ln.startswith("VIOL "):
                body = ln[5:]
                fp, _, detail = body.partition(" | ")
                m = re.search(r"case=(\d+)", detail)
                case = int(m.group(1)) if m else None
                if viol_filter is not None:
                    why = viol_filter(fp.strip(), case)   # None = keep, else the reason the observation cannot be held against the code
                    if why:
                        self.discarded[why] = self.discarded.get(why, 0) + 1
                        continue
                fp = fp.strip()
                if fp_suffix is not None and case is not None:
                    fp += fp_suffix(case)   # a static feature of the case's input, used only to identify listed known findings
                self.add_viol(fp, detail.replace("\\n", "\n"), case=case, cmd=cmd)
            elif ln.startswith("NOTE "):
                if len(self.notes) < 20:
                    self.notes.append(ln[5:])


def _sig_name(rc):
    if rc < 0:
        try:
            return signal.Signals(-rc).name
        except ValueError:
            return "SIG%d" % -rc
    return "exit%d" % rc


def san_summary(text):
    """Extract a stable fingerprint from sanitizer/assert output."""
    m = re.search(r"SUMMARY: (\w+Sanitizer): ([\w-]+) (\S+?)(?::\d+)* in (\w+)", text)
    if m:
        return "%s:%s:%s" % (m.group(1), m.group(2), m.group(4))
    m = re.search(r"SUMMARY: (\w+Sanitizer): ([\w-]+)", text)
    if m:
        return "%s:%s" % (m.group(1), m.group(2))
    m = re.search(r"([\w./-]+):(\d+):\d*:? runtime error: (.*)", text)
    if m:
        return "ubsan:%s:%s" % (os.path.basename(m.group(1)), re.sub(r"[-\d]+", "N", m.group(3))[:60])
    m = re.search(r"Fatal failure in matching insn:\s*(\w+)", text)  # target code generator gives up and exits
    if m:
        return "gen-fatal:no-pattern-for:%s" % m.group(1)
    m = re.search(r"(\S+): ([\w./-]+):(\d+): (\w+): Assertion `(.*)' failed", text)
    if m:
        return "assert:%s:%s" % (os.path.basename(m.group(2)), m.group(4))
    return None


def run_shard(exe, args, start, count, env=None, timeout=600, progress=True):
    """Run harness over cases [start, start+count). Restarts after a crash at the case after the crashing one.
    Returns (lines, crashes) where crashes = [(case, signame, tail_of_stderr)]."""
    lines = []
    crashes = []
    restarts = 0
    cur = start
    end = start + count
    e = dict(os.environ)
    if env:
        e.update(env)
    while cur < end:
        with tempfile.NamedTemporaryFile(prefix="vp-prog-", dir=os.environ.get("TMPDIR", "/tmp")) as pf:
            e["VP_PROGRESS_FILE"] = pf.name
            cmd = [exe] + [str(a) for a in args] + ["--start", str(cur), "--count", str(end - cur)]
            try:
                r = subprocess.run(cmd, stdout=subprocess.PIPE, stderr=subprocess.PIPE, env=e, timeout=timeout,
                                   errors="replace", text=True)
                rc, out, err = r.returncode, r.stdout, r.stderr
                timed_out = False
            except subprocess.TimeoutExpired as ex:
                rc = -9
                out = ex.stdout or ""
                err = ex.stderr or ""
                if isinstance(out, bytes):
                    out = out.decode(errors="replace")
                if isinstance(err, bytes):
                    err = err.decode(errors="replace")
                timed_out = True
            lines.extend(out.splitlines())
            if rc == 0:
                break
            try:
                pf.seek(0)
                last = int(pf.read().split()[0])
            except Exception:
                last = cur
            if rc != 99:  # 99 = the harness printed the violation itself (e.g. per-case watchdog) and wants a restart
                crashes.append((last, "timeout" if timed_out else _sig_name(rc), err[-6000:], " ".join(cmd)))
            else:
                restarts += 1
            cur = max(last, cur) + 1
            if restarts >= 12 and cur < end:
                # every restart already reported its violation; a tree on which most cases hang must not keep the check busy for hours
                lines.extend(["DISCARD skipped-after-12-watchdog-restarts-in-one-shard"] * (end - cur))
                break
    return lines, crashes


def run_sharded(res, exe, args, total, env=None, nshards=None, timeout=900, crash_is_violation=True,
                crash_fp_prefix="crash", viol_filter=None, fp_suffix=None):
    """Run `total` cases over up to NCPU processes. Crashes become violations with fingerprint
    crash:<signal>:<sanitizer summary or 'nosummary'>."""
    nshards = nshards or min(NCPU, max(1, total))
    per = (total + nshards - 1) // nshards
    jobs = []
    for i in range(nshards):
        s = i * per
        c = min(per, total - s)
        if c > 0:
            jobs.append((s, c))
    # one scratch directory per run for everything the harness processes (and the tools they start) write: it is removed when the run ends,
    # also when a harness process was killed by its watchdog and could not clean up after itself
    run_tmp = tempfile.mkdtemp(prefix="vp-run-", dir=os.environ.get("TMPDIR", "/tmp"))
    env = dict(env or {}, VP_TMP=run_tmp, TMPDIR=run_tmp)
    try:
        with ThreadPoolExecutor(max_workers=len(jobs) or 1) as ex:
            futs = [ex.submit(run_shard, exe, args, s, c, env, timeout) for s, c in jobs]
            results = [f.result() for f in futs]
    finally:
        shutil.rmtree(run_tmp, ignore_errors=True)
    if True:
        for lines, crashes in results:
            res.merge_lines(lines, cmd=" ".join([exe] + [str(a) for a in args]), viol_filter=viol_filter, fp_suffix=fp_suffix)
            for case, sig, err, cmd in crashes:
                if sig == "timeout":
                    res.discarded["watchdog"] = res.discarded.get("watchdog", 0) + 1
                    res.inconclusive.append("watchdog at case %d: %s" % (case, cmd))
                    continue
                if sig == "exit3" and "harness: arena exhausted" in err:
                    # the harness's own memory bound (h/vp_mir.h VP_ARENA_SIZE), not a library failure: the case is dropped
                    res.discarded["harness-arena-bound"] = res.discarded.get("harness-arena-bound", 0) + 1
                    continue
                if not crash_is_violation:
                    continue
                fp = "%s:%s:%s" % (crash_fp_prefix, sig, san_summary(err) or "nosummary")
                if fp_suffix is not None:
                    fp += fp_suffix(case)
                res.add_viol(fp, "case=%d %s\n%s" % (case, sig, err[-3000:]), case=case, cmd=cmd)


# ---------------------------------------------------------------- known findings

def load_known(prop):
    p = os.path.join(VERIF, "known_findings.json")
    if not os.path.exists(p):
        return []
    with open(p) as f:
        data = json.load(f)
    return [k for k in data.get("findings", []) if k.get("property") == prop]


def finish(res, tier, rule, level="exploration", assumptions=(), extra=None, evaluations=None, floor=None,
           exhaustive=None, distinct=None):
    """Write evidence, print verdict lines, return exit code.
    floor: dict counter->minimum; a run below a floor is inconclusive (exit 2)."""
    prop = res.prop
    known = load_known(prop)
    open_k = [k for k in known if k.get("status") == "open"]
    real = {}
    known_hit = {}
    for fp, v in res.viol.items():
        hit = None
        for k in open_k:
            if re.search(k["match"], fp):
                hit = k
                break
        if hit:
            known_hit.setdefault(hit["id"], (hit, 0))
            known_hit[hit["id"]] = (hit, known_hit[hit["id"]][1] + v["n"])
        else:
            real[fp] = v
    rdir = os.path.join(VERIF, "replays", prop)
    os.makedirs(rdir, exist_ok=True)
    for old_f in os.listdir(rdir):  # replays of earlier runs of this tier would only mislead
        if old_f.startswith(tier + "-"):
            try:
                os.unlink(os.path.join(rdir, old_f))
            except OSError:
                pass
    code = 0
    for k in open_k:
        n = known_hit.get(k["id"], (k, 0))[1]
        print("KNOWN-FINDING: property=%s %s [%s; re-observed %d time(s) in this run]" % (prop, k["what"], k["id"], n))
    for i, (fp, v) in enumerate(sorted(real.items())):
        safe = re.sub(r"[^A-Za-z0-9_.-]+", "_", fp)[:80]
        path = os.path.join(rdir, "%s-%s-%d.txt" % (tier, safe, i))
        with open(path, "w") as f:
            f.write("property: %s\nfingerprint: %s\noccurrences: %d\nseed: %d\n" % (prop, fp, v["n"], seed()))
            if v.get("cmd"):
                c = v["cmd"]
                if v.get("case") is not None and "--start" not in c:
                    c += " --start %d --count 1 --verbose" % v["case"]
                f.write("replay: %s\n" % c)
            f.write("\n%s\n" % v["detail"])
        print("VIOLATION property=%s replay=%s" % (prop, path))
        print("  fingerprint=%s occurrences=%d" % (fp, v["n"]))
        code = 1
    ev = evaluations if evaluations is not None else res.counters.get("cases", 0)
    dn = distinct if distinct is not None else len(res.distinct)
    inconcl = list(res.inconclusive)
    if floor:
        for k, m in floor.items():
            if res.counters.get(k, 0) < m:
                inconcl.append("floor not reached: %s=%d < %d" % (k, res.counters.get(k, 0), m))
    ndisc = sum(res.discarded.values())
    if ev and ndisc > 0.05 * (ev + ndisc) and res.discarded.get("watchdog", 0) + res.discarded.get("harness", 0) > 0.05 * (ev + ndisc):
        inconcl.append("more than 5%% of cases discarded for harness reasons: %r" % res.discarded)
    cov = {
        "evaluations": int(ev),
        "distinct_nontrivial": int(dn),
        "rule": rule,
        "samples": res.samples[:6] if res.samples else ["(no sample emitted)"],
        "counters": dict(sorted(res.counters.items())),
        "discarded": res.discarded,
        "known_findings_reobserved": {k: n for k, (h, n) in known_hit.items()},
        "violation_fingerprints": sorted(real.keys()),
        "notes": res.notes,
    }
    if exhaustive is not None:
        cov["exhaustive"] = bool(exhaustive)
    if extra:
        cov.update(extra)
    evd = {
        "property_id": prop,
        "tier": tier,
        "seed": seed(),
        "level": level,
        "coverage": cov,
        "assumptions": list(assumptions),
        "wall_s": round(time.time() - res.t0, 2),
        "violations": len(real),
    }
    if inconcl and code == 0:
        evd["coverage"]["inconclusive"] = inconcl
    os.makedirs(os.path.join(VERIF, "evidence"), exist_ok=True)
    tmp = os.path.join(VERIF, "evidence", "%s.json.tmp" % prop)
    with open(tmp, "w") as f:
        json.dump(evd, f, indent=1, sort_keys=False)
        f.write("\n")
    os.rename(tmp, os.path.join(VERIF, "evidence", "%s.json" % prop))
    if code == 0 and inconcl:
        for r in inconcl:
            print("INCONCLUSIVE property=%s reason=%s" % (prop, r))
        # watchdog-only inconclusives do not void the whole run when everything else held
        hard = [r for r in inconcl if not r.startswith("watchdog")]
        if hard:
            code = 2
    print("%s %s: evaluations=%d distinct_nontrivial=%d violations=%d known=%d wall=%.1fs -> exit %d"
          % (prop, tier, ev, dn, len(real), len(known_hit), time.time() - res.t0, code))
    return code
