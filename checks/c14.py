"""C14: loaded data items form contiguous, correctly initialised sections (fast + asan builds)."""
from vlib import build, common

RULE = ("one case = one generated module of 3-40 data/bss/ref/lref/expr items (every element type, lengths incl. 0, named/anonymous mixtures, "
        "sections interrupted by other items, refs to earlier/later items, functions, imports of another module and of externals, expr items of "
        "every result type, single- and two-label lrefs), scanned, loaded and linked with the interpreter, eager or lazy generator interface; the "
        "harness recomputes the layout from the declarations and reads every item's address and bytes. distinct = cases with >= 6 items")


def run(tier):
    res = common.Result("C14")
    th = tier == "thorough"
    seed = common.seed()
    for cfg in ("fast", "asan"):
        exe = build.build_harness("c14", ["c14_sections.c"], cfg)
        n = (200000 if th else 6000) if cfg == "fast" else (20000 if th else 600)
        common.run_sharded(res, exe, ["--seed", seed], n, env=common.ASAN_ENV, timeout=3000)
    return common.finish(
        res, tier, RULE,
        assumptions=["section = a named data-like item followed by anonymous ones, broken by any other item (MIR.md, MIR_load_module)",
                     "two-label lref items are judged against the same engine's own laddr results (label[-label2]+disp)"],
        floor={"adjacency_checks": 1000, "ref_ok": 100, "expr_ok": 100, "lref_address_ok": 50})


def replay(path):
    print(open(path).read())
    return 0
