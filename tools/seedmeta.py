#!/usr/bin/env python3
"""tools/seedmeta.py <seed-dir> <property> <needs> <detected: yes/no + by what>  -> writes meta.json"""
import json, sys, os
d, prop, needs, det = sys.argv[1:5]
meta = {
    "property": prop,
    "breaks": open(os.path.join(d, "NOTES.md")).read().split("\n\n")[0][:600] if os.path.exists(os.path.join(d, "NOTES.md")) else "",
    "needs_to_manifest": needs,
    "origin": "independent sub-agent given only the property text and a scratch worktree",
    "confirmed": "patch applies to /repo HEAD; builds; the 45 pinned tests pass with it (RelWithDebInfo); demo.sh fails with the patch and passes without (re-run by me in a scratch worktree)",
    "ran": "tools/try_mutant.sh seeded/%s/patch.diff %s quick" % (os.path.basename(d.rstrip('/')), prop),
    "detected": det,
}
if len(sys.argv) > 5:
    meta["confirmed"] = sys.argv[5]
json.dump(meta, open(os.path.join(d, "meta.json"), "w"), indent=1)
