"""C01/C03/C04 share the generated-program harness (h/c01_prog.c): engines of the library vs the reference model."""
from vlib import build, common

RULES = {
    "C01": ("one case = one generated single-module program (1-8 functions: integer 64/32-bit and FP code, memory operands with "
            "base/index/scale/disp over three regions, bounded loops, if/else on every branch opcode class, switch / laddr+jmpi / lref "
            "dispatch, irreducible two-entry loops, overflow insns + branches, allocas, calls/inline, recursion, external logging calls), "
            "run on 6 input pairs by MIR_interp and by generated code at -O0..-O3; result, final buffer, module data and the ordered "
            "external-call log are compared with the reference model. distinct = distinct shape hashes of programs with >= 12 nodes and a loop or call"),
    "C03": ("as C01 but 1-3 modules with imports/exports between them, run through MIR_interp, the interpreter's C interface, eager gen, "
            "lazy gen and lazy basic-block gen (levels 0 and 2), 9 entry calls in random order; the entry's public address must not change"),
    "C04": ("as C01 with 1-2 modules, run by MIR_interp, gen -O0 and gen -O2 on three builds of the library (default, never inline, "
            "always inline); the reference model executes the program as written, so simplification and inlining cannot hide behind an engine"),
}

# generator feature masks (h/prog.h PF_*): 65 = no lref tables, no laddr/jmpi dispatch; 0 = everything
NOJ = 65
FLOOR = {"programs": 200, "calls": 100, "loops": 100, "irreducible_loops": 10, "switches": 50, "allocas": 20, "overflow_branches": 50, "narrow_types": 50}


def run_jobs(tier, prop, mode, jobs, floor=None, extra=None):
    """jobs = [(label, build cfg, feature mask, quick count, thorough count)]"""
    res = common.Result(prop)
    th = tier == "thorough"
    seed = common.seed()
    per = {}
    for label, cfg, feat, nq, nt in jobs:
        exe = build.build_harness("c01", ["c01_prog.c"], cfg)
        before = res.counters.get("programs", 0)
        flt = None
        if cfg == "asan":
            # the per-engine watchdog (120 s) is a wall-clock bound: under ASan the allocation-heavy generator passes of a large function can
            # exceed it on a loaded machine. A hang seen only by the ASan build is confirmed with the uninstrumented build of the same case
            # (same seed, mode, features, case number); it is a violation only if that run hangs too, otherwise the case is discarded.
            fast_exe = build.build_harness("c01", ["c01_prog.c"], "fast")

            def flt(fp, case, fast_exe=fast_exe, feat=feat):
                if not fp.startswith("engine-hang") or case is None:
                    return None
                import subprocess
                try:
                    r = subprocess.run([fast_exe, "--seed", str(seed), "--mode", mode, "--extra", str(feat), "--start", str(case), "--count", "1"],
                                       stdout=subprocess.PIPE, stderr=subprocess.DEVNULL, text=True, errors="replace", timeout=1200)
                except subprocess.TimeoutExpired:
                    return None
                return None if "VIOL engine-hang" in r.stdout else "watchdog-under-asan-only-confirmed-not-hanging-in-plain-build"
        sfx = None
        if not (int(feat) & 64):
            # dispatch sub-runs: a violating program is classified by a static feature of its text (vlib/mirtext.py) so that the listed known
            # finding 'unreachable-laddr' can be told from every other violation; the feature is never used to judge a result
            from vlib import mirtext
            cache = {}

            def sfx(case, exe=exe, feat=feat, cache=cache):
                if case not in cache:
                    import subprocess
                    try:
                        r = subprocess.run([exe, "--seed", str(seed), "--mode", mode, "--extra", str(feat), "--start", str(case), "--count", "1", "--dump"],
                                           stdout=subprocess.PIPE, stderr=subprocess.DEVNULL, text=True, errors="replace", timeout=120, env=dict(__import__("os").environ, **common.ASAN_ENV))
                        cache[case] = ":prog-with-unreachable-laddr" if mirtext.unreachable_laddr_with_reachable_jmpi(r.stdout) else ""
                    except Exception:
                        cache[case] = ""
                return cache[case]
        common.run_sharded(res, exe, ["--seed", seed, "--mode", mode, "--extra", feat], nt if th else nq, env=common.ASAN_ENV, timeout=3000, viol_filter=flt, fp_suffix=sfx)
        per[label] = {"build": cfg, "generator_feature_mask": feat, "programs": res.counters.get("programs", 0) - before}
    ex = {"sub_runs": per}
    ex.update(extra or {})
    return common.finish(
        res, tier, RULES[prop],
        assumptions=["the reference model (h/prog.h rm_*, h/sem.h) is a faithful transcription of MIR.md; it is validated by three-way agreement "
                     "with the interpreter and the generator on the unchanged tree",
                     "programs are well-defined by construction (DESIGN.md 1.2): every register is initialised, every memory access is inside its "
                     "region (the reference run re-checks this), 32-bit results are re-extended before a 64-bit use, divisors are non-zero, shift "
                     "counts masked; cases whose reference run exceeds 2M steps are discarded",
                     "laddr/jmpi and lref dispatch are generated only in the dedicated 'dispatch' sub-run (known finding jmpi-edge-split)"],
        extra=ex,
        evaluations=res.counters.get("engine_runs", 0),
        floor=floor or FLOOR)


def run(tier):
    return run_jobs(tier, "C01", "c01",
                    [("main", "fast", NOJ, 8000, 150000), ("main-asan", "asan", NOJ, 400, 12000),
                     ("dispatch", "fast", 0, 2500, 40000), ("dispatch-asan", "asan", 0, 150, 3000)])


def replay(path):
    print(open(path).read())
    return 0
