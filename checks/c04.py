"""C04: link-time simplification and inlining preserve behaviour (default / never-inline / always-inline builds vs the reference model)."""
from checks import c01


def run(tier):
    return c01.run_jobs(tier, "C04", "c04",
                        [("default", "fast", c01.NOJ, 4000, 60000), ("never-inline", "noinl", c01.NOJ, 2500, 60000),
                         ("always-inline", "allinl", c01.NOJ, 4000, 60000), ("always-inline-asan", "asan", c01.NOJ, 250, 6000),
                         ("dispatch-always-inline", "allinl", 0, 600, 15000)],
                        floor=dict(c01.FLOOR, inline_calls=50))


replay = c01.replay
