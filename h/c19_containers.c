/* C19: container headers vs trivially correct reference models.
   Built with ASan + UBSan, asserts and the headers' own checking enabled.
   Modes (each enumerated by a case index so runs can be sharded / replayed):
     htab-exh   exhaustive op sequences (len L) over 4 colliding keys, initial size 2
     htab-rnd   long random sequences (growth, delete-heavy phases, hash 0)
     bm-grid    exhaustive (op, aliasing pattern, operand bitmaps incl. trailing zero words)
     bm-rnd     random sequences over all bitmap operations incl. iterator/ranges
     varr-rnd   random sequences with a size-checking allocator
     dlist-exh  exhaustive op sequences over 4 nodes
     dlist-rnd  random sequences
*/
#define HTAB_ENABLE_CHECKING
#define VARR_ENABLE_CHECKING
#define BITMAP_ENABLE_CHECKING
#define DLIST_ENABLE_CHECKING
#include "vp.h"
#include "mir-alloc.h"
#include "mir-varr.h"
#include "mir-htab.h"
#include "mir-bitmap.h"
#include "mir-dlist.h"

static int verbose;
static long cur_case;
static const char *cur_mode;

/* ------------------------------------------------------------------ checking allocator */
#define MAXBLK 4096
static struct blk { void *p; size_t sz; } blks[MAXBLK];
static int nblks;
static long alloc_errors, n_realloc, n_malloc, n_free, nontrivial;
static char alloc_err_msg[256];

static int blk_find (void *p) {
  for (int i = 0; i < nblks; i++)
    if (blks[i].p == p) return i;
  return -1;
}
static void blk_add (void *p, size_t sz) {
  if (nblks >= MAXBLK) { fprintf (stderr, "harness: too many blocks\n"); exit (3); }
  blks[nblks].p = p; blks[nblks].sz = sz; nblks++;
}
static void *ck_malloc (size_t sz, void *ud) {
  void *p = malloc (sz ? sz : 1);
  blk_add (p, sz); n_malloc++;
  return p;
}
static void *ck_calloc (size_t n, size_t sz, void *ud) {
  void *p = calloc (n ? n : 1, sz ? sz : 1);
  blk_add (p, n * sz); n_malloc++;
  return p;
}
static void *ck_realloc (void *p, size_t old, size_t nw, void *ud) {
  int i = blk_find (p);
  n_realloc++;
  if (i < 0) {
    alloc_errors++; snprintf (alloc_err_msg, sizeof alloc_err_msg, "realloc of unknown block");
    return realloc (p, nw);
  }
  if (blks[i].sz != old) {
    alloc_errors++;
    snprintf (alloc_err_msg, sizeof alloc_err_msg, "realloc old_size=%zu but block has %zu", old, blks[i].sz);
  }
  void *q = realloc (p, nw ? nw : 1);
  blks[i].p = q; blks[i].sz = nw;
  return q;
}
static void ck_free (void *p, void *ud) {
  int i = blk_find (p);
  n_free++;
  if (i < 0) {
    if (p != NULL) { alloc_errors++; snprintf (alloc_err_msg, sizeof alloc_err_msg, "free of unknown block"); }
    return;
  }
  blks[i] = blks[--nblks];
  free (p);
}
static struct MIR_alloc ck_alloc = {ck_malloc, ck_calloc, ck_realloc, ck_free, NULL};

static void check_alloc_end (const char *what, const char *hist) {
  if (alloc_errors) {
    vp_viol ("alloc-contract", "case=%ld mode=%s %s: %s\nhistory: %s", cur_case, cur_mode, what, alloc_err_msg, hist);
    alloc_errors = 0;
  }
  if (nblks != 0) {
    vp_viol ("leak-after-destroy", "case=%ld mode=%s %s: %d blocks live after destroy\nhistory: %s", cur_case, cur_mode, what, nblks, hist);
    for (int i = 0; i < nblks; i++) free (blks[i].p);
    nblks = 0;
  }
}

/* ------------------------------------------------------------------ HTAB */
typedef struct { int key; int id; } hel_t;
DEF_HTAB (hel_t);
static int hash_kind;
static htab_hash_t hel_hash (hel_t e, void *arg) {
  switch (hash_kind) {
  case 0: return (e.key & 1) ? 0 : 8;          /* all keys collide pairwise; includes HTAB_DELETED_HASH */
  case 1: return 0;                            /* everything collides on the remapped hash */
  case 2: return (htab_hash_t) e.key;          /* identity incl. 0 */
  default: return (htab_hash_t) ((unsigned) e.key * 2654435761u);
  }
}
static int hel_eq (hel_t a, hel_t b, void *arg) { return a.key == b.key; }
#define MAXFREED 64
static int freed[MAXFREED], nfreed;
static long free_total;
static void hel_free (hel_t e, void *arg) {
  if (nfreed < MAXFREED) freed[nfreed] = e.id;
  nfreed++; free_total++;
}

static char hist[4096];
static int hist_len;
static void hist_reset (void) { hist_len = 0; hist[0] = 0; }
static void hist_add (const char *fmt, ...) {
  va_list ap;
  va_start (ap, fmt);
  if (hist_len < (int) sizeof (hist) - 64) hist_len += vsnprintf (hist + hist_len, sizeof (hist) - hist_len, fmt, ap);
  va_end (ap);
}

#define HKEYS_MAX 4096
typedef struct { int present[HKEYS_MAX]; int id[HKEYS_MAX]; int n; } hmodel_t;
static hmodel_t hm;
static int hm_nkeys;
static int foreach_seen[HKEYS_MAX], foreach_cnt, foreach_bad;
static void foreach_cb (hel_t e, void *arg) {
  foreach_cnt++;
  if (e.key < 0 || e.key >= hm_nkeys || !hm.present[e.key] || hm.id[e.key] != e.id || foreach_seen[e.key]) foreach_bad++;
  else foreach_seen[e.key] = 1;
}

static int htab_full_check (HTAB (hel_t) * ht, const char *after) {
  int ok = 1;
  if ((int) HTAB_ELS_NUM (hel_t, ht) != hm.n) {
    vp_viol ("htab-els_num", "case=%ld mode=%s after %s: els_num=%u model=%d\nhistory: %s", cur_case, cur_mode, after,
             HTAB_ELS_NUM (hel_t, ht), hm.n, hist);
    ok = 0;
  }
  foreach_cnt = foreach_bad = 0;
  memset (foreach_seen, 0, sizeof (int) * hm_nkeys);
  HTAB_FOREACH_ELEM (hel_t, ht, foreach_cb, NULL);
  if (foreach_bad || foreach_cnt != hm.n) {
    vp_viol ("htab-foreach", "case=%ld mode=%s after %s: foreach saw %d elems (%d bad), model has %d\nhistory: %s", cur_case,
             cur_mode, after, foreach_cnt, foreach_bad, hm.n, hist);
    ok = 0;
  }
  return ok;
}

/* op: 0 find 1 insert 2 replace 3 delete 4 clear ; returns 0 on violation */
static int next_id; static long htab_hits;
static int htab_step (HTAB (hel_t) * ht, int op, int key, int with_free, int fullcheck) {
  hel_t e = {key, next_id++}, r = {-1, -1};
  char what[64];
  int exp_ret, exp_key = -1, exp_id = -1, exp_freed[2], nexp = 0, got;
  static const char *names[] = {"find", "insert", "replace", "delete", "clear"};
  snprintf (what, sizeof what, "%s(%d#%d)", names[op], key, e.id);
  hist_add ("%s ", what);
  nfreed = 0;
  if (op == 4) {
    int expn = hm.n;
    HTAB_CLEAR (hel_t, ht);
    if (with_free && nfreed != expn) {
      vp_viol ("htab-free-count", "case=%ld mode=%s clear freed %d elems, model %d\nhistory: %s", cur_case, cur_mode, nfreed, expn, hist);
      return 0;
    }
    if (with_free)
      for (int i = 0; i < nfreed && i < MAXFREED; i++) {
        int found = 0;
        for (int k = 0; k < hm_nkeys; k++)
          if (hm.present[k] && hm.id[k] == freed[i]) { hm.present[k] = 0; found = 1; }
        if (!found) {
          vp_viol ("htab-free-wrong", "case=%ld mode=%s clear freed id %d not in table (or twice)\nhistory: %s", cur_case, cur_mode, freed[i], hist);
          return 0;
        }
      }
    memset (hm.present, 0, sizeof (int) * hm_nkeys);
    hm.n = 0;
    return fullcheck ? htab_full_check (ht, what) : 1;
  }
  exp_ret = hm.present[key];
  switch (op) {
  case 0: if (exp_ret) { exp_key = key; exp_id = hm.id[key]; } break;
  case 1:
    if (exp_ret) { exp_key = key; exp_id = hm.id[key]; }
    else { exp_key = key; exp_id = e.id; hm.present[key] = 1; hm.id[key] = e.id; hm.n++; }
    break;
  case 2:
    if (exp_ret) exp_freed[nexp++] = hm.id[key];
    else hm.n++;
    exp_key = key; exp_id = e.id; hm.present[key] = 1; hm.id[key] = e.id;
    break;
  case 3:
    if (exp_ret) { exp_freed[nexp++] = hm.id[key]; hm.present[key] = 0; hm.n--; }
    break;
  }
  got = HTAB_DO (hel_t, ht, e, (enum htab_action) op, r);
  if (got) htab_hits++;
  if (got != exp_ret) {
    vp_viol ("htab-ret", "case=%ld mode=%s %s returned %d, model %d\nhistory: %s", cur_case, cur_mode, what, got, exp_ret, hist);
    return 0;
  }
  if (exp_key >= 0 && (r.key != exp_key || r.id != exp_id)) {
    vp_viol ("htab-elem", "case=%ld mode=%s %s delivered (%d#%d), model (%d#%d)\nhistory: %s", cur_case, cur_mode, what, r.key, r.id,
             exp_key, exp_id, hist);
    return 0;
  }
  if (with_free) {
    if (nfreed != nexp || (nexp == 1 && freed[0] != exp_freed[0])) {
      vp_viol ("htab-free", "case=%ld mode=%s %s: free_func called %d times (first id %d), model %d times (id %d)\nhistory: %s", cur_case,
               cur_mode, what, nfreed, nfreed ? freed[0] : -1, nexp, nexp ? exp_freed[0] : -1, hist);
      return 0;
    }
  }
  return fullcheck ? htab_full_check (ht, what) : 1;
}

static int htab_destroy_check (HTAB (hel_t) * ht, int with_free) {
  int expn = hm.n;
  nfreed = 0;
  hist_add ("destroy ");
  HTAB_DESTROY (hel_t, ht);
  if (ht != NULL) { vp_viol ("htab-destroy", "case=%ld destroy did not null the handle", cur_case); return 0; }
  if (with_free && nfreed != expn) {
    vp_viol ("htab-free-count", "case=%ld mode=%s destroy freed %d elems, model %d\nhistory: %s", cur_case, cur_mode, nfreed, expn, hist);
    return 0;
  }
  check_alloc_end ("htab", hist);
  return 1;
}

#define HEXH_NOPS 17 /* 4 ops x 4 keys + clear */
static long ipow (long b, int e) { long r = 1; while (e-- > 0) r *= b; return r; }

static void htab_exh_case (long idx, int len) {
  /* idx also selects hash kind (0/1) and with_free in its top bits */
  long nseq = ipow (HEXH_NOPS, len);
  int variant = (int) (idx / nseq);
  long s = idx % nseq;
  HTAB (hel_t) * ht;
  hash_kind = variant & 1;
  int with_free = (variant >> 1) & 1;
  hm_nkeys = 4; memset (&hm, 0, sizeof (int) * 4); memset (hm.present, 0, sizeof (int) * 4); hm.n = 0;
  next_id = 100; hist_reset ();
  hist_add ("[hash_kind=%d free=%d size=2] ", hash_kind, with_free);
  HTAB_OP (hel_t, create) (&ht, &ck_alloc, 2, hel_hash, hel_eq, with_free ? hel_free : NULL, NULL);
  long hits0 = htab_hits;
  for (int i = 0; i < len; i++) {
    int o = (int) (s % HEXH_NOPS); s /= HEXH_NOPS;
    int op = o == 16 ? 4 : o / 4, key = o % 4;
    if (!htab_step (ht, op, key, with_free, 1)) { HTAB_DESTROY (hel_t, ht); for (int k = 0; k < nblks; k++) {} nblks = nblks; goto out; }
  }
  htab_destroy_check (ht, with_free);
  if (htab_hits != hits0) nontrivial++; /* some op met an element already in the table */
  return;
out:
  /* after a violation: drop bookkeeping of remaining blocks */
  for (int i = 0; i < nblks; i++) free (blks[i].p);
  nblks = 0; alloc_errors = 0;
}

static void htab_rnd_case (long idx, uint64_t seed, int tier) {
  vp_rng_t r = vp_case_rng (seed, 0x1901, idx);
  HTAB (hel_t) * ht;
  int nkeys = (int[]){3, 8, 40, 300, 3000}[vp_below (&r, tier ? 5 : 4)];
  long nops = tier ? vp_range (&r, 2000, 60000) : vp_range (&r, 200, 6000);
  int with_free = vp_chance (&r, 70);
  hash_kind = (int) vp_below (&r, 4);
  if (hash_kind == 1 && nkeys > 40) hash_kind = 3; /* quadratic blow-up only, not interesting */
  hm_nkeys = nkeys; memset (hm.present, 0, sizeof (int) * nkeys); hm.n = 0; next_id = 1000; hist_reset ();
  hist_add ("[rnd nkeys=%d nops=%ld hash_kind=%d free=%d] (history elided) ", nkeys, nops, hash_kind, with_free);
  int save = hist_len;
  HTAB_OP (hel_t, create) (&ht, &ck_alloc, (htab_size_t) vp_below (&r, 9), hel_hash, hel_eq, with_free ? hel_free : NULL, NULL);
  int phase = 0;
  for (long i = 0; i < nops; i++) {
    if (i % 512 == 0) phase = (int) vp_below (&r, 4); /* 0 mixed 1 insert-heavy 2 delete-heavy 3 churn one key */
    int op, key = (int) vp_below (&r, nkeys);
    int p = (int) vp_below (&r, 100);
    switch (phase) {
    case 1: op = p < 70 ? 1 : p < 85 ? 2 : p < 95 ? 0 : 3; break;
    case 2: op = p < 70 ? 3 : p < 80 ? 1 : 0; break;
    case 3: key = key % 2; op = p < 50 ? 1 : 3; break;
    default: op = p < 30 ? 1 : p < 50 ? 2 : p < 75 ? 3 : 0; break;
    }
    if (vp_below (&r, 4000) == 0) op = 4;
    hist_len = save; hist[save] = 0;
    hist_add ("... op#%ld ", i);
    int full = (i % 97 == 0) || i == nops - 1;
    if (!htab_step (ht, op, key, with_free, full)) {
      HTAB_DESTROY (hel_t, ht);
      for (int k = 0; k < nblks; k++) free (blks[k].p);
      nblks = 0; alloc_errors = 0;
      return;
    }
  }
  htab_destroy_check (ht, with_free);
  nontrivial++;
}

/* ------------------------------------------------------------------ bitmap */
#define UNIV 320
typedef struct { unsigned char b[UNIV]; } bset_t;

static int bm_matches (bitmap_t bm, const bset_t *m, const char *after) {
  for (size_t i = 0; i < UNIV; i++)
    if (bitmap_bit_p (bm, i) != m->b[i]) {
      vp_viol ("bitmap-content", "case=%ld mode=%s after %s: bit %zu is %d, model %d\nhistory: %s", cur_case, cur_mode, after, i,
               bitmap_bit_p (bm, i), m->b[i], hist);
      return 0;
    }
  /* nothing beyond the universe */
  size_t len = VARR_LENGTH (bitmap_el_t, bm);
  for (size_t w = UNIV / 64; w < len; w++)
    if (VARR_GET (bitmap_el_t, bm, w) != 0) {
      vp_viol ("bitmap-content", "case=%ld mode=%s after %s: bits beyond universe set\nhistory: %s", cur_case, cur_mode, after, hist);
      return 0;
    }
  return 1;
}
static int bs_equal (const bset_t *a, const bset_t *b) { return memcmp (a, b, sizeof (bset_t)) == 0; }

/* observers: count/min/max/empty/iterator vs model */
static int bm_observe (bitmap_t bm, const bset_t *m, const char *after) {
  size_t cnt = 0, mn = 0, mx = 0; int any = 0;
  for (size_t i = 0; i < UNIV; i++)
    if (m->b[i]) { if (!any) mn = i; mx = i; any = 1; cnt++; }
  if (bitmap_bit_count (bm) != cnt) { vp_viol ("bitmap-count", "case=%ld mode=%s after %s: count=%zu model=%zu\nhistory: %s", cur_case, cur_mode, after, bitmap_bit_count (bm), cnt, hist); return 0; }
  if (bitmap_empty_p (bm) != !any) { vp_viol ("bitmap-empty", "case=%ld mode=%s after %s: empty_p=%d model=%d\nhistory: %s", cur_case, cur_mode, after, bitmap_empty_p (bm), !any, hist); return 0; }
  if (bitmap_bit_min (bm) != mn) { vp_viol ("bitmap-min", "case=%ld mode=%s after %s: min=%zu model=%zu\nhistory: %s", cur_case, cur_mode, after, bitmap_bit_min (bm), mn, hist); return 0; }
  if (bitmap_bit_max (bm) != mx) { vp_viol ("bitmap-max", "case=%ld mode=%s after %s: max=%zu model=%zu\nhistory: %s", cur_case, cur_mode, after, bitmap_bit_max (bm), mx, hist); return 0; }
  bitmap_iterator_t it; size_t nb, prev = 0, seen = 0; int first = 1;
  FOREACH_BITMAP_BIT (it, bm, nb) {
    if (nb >= UNIV || !m->b[nb] || (!first && nb <= prev)) {
      vp_viol ("bitmap-iter", "case=%ld mode=%s after %s: iterator yielded %zu (prev %zu, first=%d)\nhistory: %s", cur_case, cur_mode, after, nb, prev, first, hist);
      return 0;
    }
    prev = nb; first = 0;
    if (++seen > UNIV) break;
  }
  if (seen != cnt) { vp_viol ("bitmap-iter", "case=%ld mode=%s after %s: iterator yielded %zu members, model %zu\nhistory: %s", cur_case, cur_mode, after, seen, cnt, hist); return 0; }
  return 1;
}

/* representative bitmaps: (length in words, word patterns); trailing zero words are built by set+clear */
static const uint64_t wpat[] = {0, 1, 0x8000000000000000ull, ~0ull, 0x00ff00ff00000001ull};
#define NWPAT 5
/* representative r: len = r % 4 words for grid; word i pattern = digits of r/4 in base NWPAT */
static long nrep (int maxlen) { long n = 0; for (int l = 0; l <= maxlen; l++) n += ipow (NWPAT, l); return n; }
static void rep_decode (long r, int maxlen, int *len, int pat[4]) {
  for (int l = 0; l <= maxlen; l++) {
    long n = ipow (NWPAT, l);
    if (r < n) { *len = l; for (int i = 0; i < l; i++) { pat[i] = (int) (r % NWPAT); r /= NWPAT; } return; }
    r -= n;
  }
  *len = 0;
}
static void rep_build (bitmap_t bm, bset_t *m, long r, int maxlen) {
  int len, pat[4] = {0, 0, 0, 0};
  rep_decode (r, maxlen, &len, pat);
  bitmap_clear (bm);
  memset (m, 0, sizeof *m);
  if (len > 0) { bitmap_set_bit_p (bm, (size_t) len * 64 - 1); bitmap_clear_bit_p (bm, (size_t) len * 64 - 1); } /* len words, all zero */
  for (int w = 0; w < len; w++)
    for (int b = 0; b < 64; b++)
      if ((wpat[pat[w]] >> b) & 1) { bitmap_set_bit_p (bm, (size_t) w * 64 + b); m->b[w * 64 + b] = 1; }
  hist_add ("rep(len=%d", len);
  for (int w = 0; w < len; w++) hist_add (",%016llx", (unsigned long long) wpat[pat[w]]);
  hist_add (") ");
}

static int bm_apply_op (int op, bitmap_t d, bitmap_t s1, bitmap_t s2, bitmap_t s3) {
  switch (op) {
  case 0: return bitmap_and (d, s1, s2);
  case 1: return bitmap_and_compl (d, s1, s2);
  case 2: return bitmap_ior (d, s1, s2);
  case 3: return bitmap_ior_and (d, s1, s2, s3);
  default: return bitmap_ior_and_compl (d, s1, s2, s3);
  }
}
static void bs_apply_op (int op, bset_t *d, const bset_t *s1, const bset_t *s2, const bset_t *s3) {
  bset_t r;
  for (int i = 0; i < UNIV; i++) switch (op) {
    case 0: r.b[i] = s1->b[i] & s2->b[i]; break;
    case 1: r.b[i] = s1->b[i] & !s2->b[i]; break;
    case 2: r.b[i] = s1->b[i] | s2->b[i]; break;
    case 3: r.b[i] = s1->b[i] | (s2->b[i] & s3->b[i]); break;
    default: r.b[i] = s1->b[i] | (s2->b[i] & !s3->b[i]); break;
    }
  *d = r;
}
static const char *bm_opname[] = {"and", "and_compl", "ior", "ior_and", "ior_and_compl"};

/* set partitions of positions (d,s1,s2[,s3]) as restricted growth strings */
static const int part3[5][3] = {{0,0,0},{0,0,1},{0,1,0},{0,1,1},{0,1,2}};
static const int part4[15][4] = {{0,0,0,0},{0,0,0,1},{0,0,1,0},{0,0,1,1},{0,0,1,2},{0,1,0,0},{0,1,0,1},{0,1,0,2},{0,1,1,0},{0,1,1,1},{0,1,1,2},{0,1,2,0},{0,1,2,1},{0,1,2,2},{0,1,2,3}};

static long bm_grid_total (int maxlen) {
  long R = nrep (maxlen), t = 0;
  for (int p = 0; p < 5; p++) { int k = 1 + part3[p][2]; if (part3[p][1] > part3[p][2]) k = 1 + part3[p][1]; t += 3 * ipow (R, k); }
  for (int p = 0; p < 15; p++) { int k = 0; for (int i = 0; i < 4; i++) if (part4[p][i] + 1 > k) k = part4[p][i] + 1; t += 2 * ipow (R, k); }
  return t;
}
/* decode a grid index into (op, partition, reps[]) */
static int bm_grid_decode (long idx, int maxlen, int *op, const int **part, int *npos, long reps[4]) {
  long R = nrep (maxlen);
  for (int p = 0; p < 5; p++) {
    int k = 0; for (int i = 0; i < 3; i++) if (part3[p][i] + 1 > k) k = part3[p][i] + 1;
    long n = ipow (R, k);
    for (int o = 0; o < 3; o++) {
      if (idx < n) { *op = o; *part = part3[p]; *npos = 3; for (int i = 0; i < k; i++) { reps[i] = idx % R; idx /= R; } return k; }
      idx -= n;
    }
  }
  for (int p = 0; p < 15; p++) {
    int k = 0; for (int i = 0; i < 4; i++) if (part4[p][i] + 1 > k) k = part4[p][i] + 1;
    long n = ipow (R, k);
    for (int o = 3; o < 5; o++) {
      if (idx < n) { *op = o; *part = part4[p]; *npos = 4; for (int i = 0; i < k; i++) { reps[i] = idx % R; idx /= R; } return k; }
      idx -= n;
    }
  }
  return -1;
}

static bitmap_t gbm[4];
static void bm_grid_case (long idx, int maxlen) {
  int op, npos; const int *part; long reps[4];
  bset_t m[4], before, expect;
  int k = bm_grid_decode (idx, maxlen, &op, &part, &npos, reps);
  if (k < 0) return;
  hist_reset ();
  hist_add ("%s(", bm_opname[op]);
  for (int i = 0; i < npos; i++) hist_add ("%c%s", 'A' + part[i], i + 1 < npos ? "," : ") with ");
  for (int i = 0; i < k; i++) { hist_add ("%c=", 'A' + i); rep_build (gbm[i], &m[i], reps[i], maxlen); }
  before = m[part[0]];
  bs_apply_op (op, &expect, &m[part[1]], &m[part[2]], npos == 4 ? &m[part[3]] : &m[part[2]]);
  int ch = bm_apply_op (op, gbm[part[0]], gbm[part[1]], gbm[part[2]], npos == 4 ? gbm[part[3]] : NULL);
  m[part[0]] = expect;
  int exp_ch = !bs_equal (&before, &expect);
  if (exp_ch) nontrivial++; /* destination really changes */
  if (!!ch != exp_ch) {
    vp_viol (exp_ch ? "bitmap-changed-missed" : "bitmap-changed-spurious",
             "case=%ld mode=%s %s: returned changed=%d but destination %s\nhistory: %s", cur_case, cur_mode, bm_opname[op], ch,
             exp_ch ? "did change" : "did not change", hist);
    return;
  }
  for (int i = 0; i < k; i++) {
    char nm[32];
    snprintf (nm, sizeof nm, "%s operand %c", bm_opname[op], 'A' + i);
    if (!bm_matches (gbm[i], &m[i], nm) || !bm_observe (gbm[i], &m[i], nm)) return;
  }
}

static void bm_rnd_case (long idx, uint64_t seed, int tier) {
  vp_rng_t r = vp_case_rng (seed, 0x1902, idx);
  static const size_t edge[] = {0, 1, 2, 31, 62, 63, 64, 65, 126, 127, 128, 129, 191, 192, 200, 255, 256, 300, 319};
  enum { NB = 4 };
  bitmap_t bm[NB]; bset_t m[NB];
  long nops = tier ? vp_range (&r, 500, 5000) : vp_range (&r, 50, 600);
  hist_reset ();
  for (int i = 0; i < NB; i++) { bm[i] = vp_chance (&r, 50) ? bitmap_create (&ck_alloc) : bitmap_create2 (&ck_alloc, vp_below (&r, 400)); memset (&m[i], 0, sizeof (bset_t)); }
  for (long n = 0; n < nops; n++) {
    int d = (int) vp_below (&r, NB), a = (int) vp_below (&r, NB), b = (int) vp_below (&r, NB), c = (int) vp_below (&r, NB);
    size_t bit = vp_chance (&r, 70) ? edge[vp_below (&r, sizeof edge / sizeof edge[0])] : vp_below (&r, UNIV);
    int op = (int) vp_below (&r, 14);
    char what[96]; int ret, exp;
    bset_t before = m[d], e;
    if (hist_len > 3000) { hist_reset (); hist_add ("(earlier ops elided) "); }
    switch (op) {
    case 0: snprintf (what, sizeof what, "set_bit(%c,%zu)", 'A' + d, bit); hist_add ("%s ", what);
      exp = !m[d].b[bit]; m[d].b[bit] = 1; ret = bitmap_set_bit_p (bm[d], bit); break;
    case 1: snprintf (what, sizeof what, "clear_bit(%c,%zu)", 'A' + d, bit); hist_add ("%s ", what);
      exp = m[d].b[bit]; m[d].b[bit] = 0; ret = bitmap_clear_bit_p (bm[d], bit); break;
    case 2: case 3: {
      size_t len = vp_chance (&r, 50) ? vp_below (&r, 5) : vp_below (&r, 200);
      if (bit + len > UNIV) len = UNIV - bit;
      int set = op == 2;
      snprintf (what, sizeof what, "%s_range(%c,%zu,%zu)", set ? "set" : "clear", 'A' + d, bit, len); hist_add ("%s ", what);
      exp = 0;
      for (size_t i = bit; i < bit + len; i++) { if (m[d].b[i] != set) exp = 1; m[d].b[i] = set; }
      ret = set ? bitmap_set_bit_range_p (bm[d], bit, len) : bitmap_clear_bit_range_p (bm[d], bit, len);
      break; }
    case 4: snprintf (what, sizeof what, "copy(%c,%c)", 'A' + d, 'A' + a); hist_add ("%s ", what);
      if (d != a) { bitmap_copy (bm[d], bm[a]); m[d] = m[a]; }
      ret = exp = 0; break;
    case 5: snprintf (what, sizeof what, "clear(%c)", 'A' + d); hist_add ("%s ", what);
      bitmap_clear (bm[d]); memset (&m[d], 0, sizeof (bset_t)); ret = exp = 0; break;
    case 6: snprintf (what, sizeof what, "equal_p(%c,%c)", 'A' + a, 'A' + b); hist_add ("%s ", what);
      ret = !!bitmap_equal_p (bm[a], bm[b]); exp = bs_equal (&m[a], &m[b]); break;
    case 7: snprintf (what, sizeof what, "intersect_p(%c,%c)", 'A' + a, 'A' + b); hist_add ("%s ", what);
      ret = !!bitmap_intersect_p (bm[a], bm[b]); exp = 0;
      for (int i = 0; i < UNIV; i++) if (m[a].b[i] && m[b].b[i]) exp = 1;
      break;
    case 8: snprintf (what, sizeof what, "bit_p(%c,%zu)", 'A' + a, bit); hist_add ("%s ", what);
      ret = bitmap_bit_p (bm[a], bit); exp = m[a].b[bit]; break;
    default: {
      int o = op - 9;
      snprintf (what, sizeof what, "%s(%c,%c,%c,%c)", bm_opname[o], 'A' + d, 'A' + a, 'A' + b, 'A' + c); hist_add ("%s ", what);
      bs_apply_op (o, &e, &m[a], &m[b], &m[c]);
      ret = !!bm_apply_op (o, bm[d], bm[a], bm[b], bm[c]);
      m[d] = e; exp = !bs_equal (&before, &e);
      break; }
    }
    if (!!ret != !!exp) {
      char fp[64];
      snprintf (fp, sizeof fp, "bitmap-ret-%s", op >= 9 ? (exp ? "changed-missed" : "changed-spurious") : "query");
      vp_viol (fp, "case=%ld mode=%s %s returned %d, model %d\nhistory: %s", cur_case, cur_mode, what, ret, exp, hist);
      goto out;
    }
    for (int i = 0; i < NB; i++)
      if (!bm_matches (bm[i], &m[i], what)) goto out;
    if (!bm_observe (bm[d], &m[d], what)) goto out;
  }
  nontrivial++;
out:
  for (int i = 0; i < NB; i++) bitmap_destroy (bm[i]);
  check_alloc_end ("bitmap", "(bm-rnd)");
}

/* ------------------------------------------------------------------ VARR */
typedef struct { int a; short b; } vel_t;
DEF_VARR (vel_t);
static void varr_rnd_case (long idx, uint64_t seed, int tier) {
  vp_rng_t r = vp_case_rng (seed, 0x1903, idx);
  VARR (vel_t) * v;
  static vel_t model[200000];
  size_t mlen = 0;
  long nops = tier ? vp_range (&r, 200, 20000) : vp_range (&r, 20, 2000);
  size_t init = vp_chance (&r, 30) ? 0 : vp_below (&r, 100);
  int ctr = 1;
  hist_reset (); hist_add ("create(%zu) ", init);
  VARR_CREATE (vel_t, v, &ck_alloc, init);
  if (VARR_LENGTH (vel_t, v) != 0 || VARR_CAPACITY (vel_t, v) != (init ? init : VARR_DEFAULT_SIZE)) {
    vp_viol ("varr-create", "case=%ld create(%zu): length %zu capacity %zu", cur_case, init, VARR_LENGTH (vel_t, v), VARR_CAPACITY (vel_t, v));
  }
  for (long n = 0; n < nops; n++) {
    int op = (int) vp_below (&r, 100);
    char what[64] = "";
    if (hist_len > 3000) { hist_reset (); hist_add ("(elided) "); }
    if (op < 40 && mlen < 190000) {
      vel_t e = {ctr++, (short) ctr};
      snprintf (what, sizeof what, "push(%d)", e.a); hist_add ("%s ", what);
      VARR_PUSH (vel_t, v, e); model[mlen++] = e;
    } else if (op < 50 && mlen > 0) {
      snprintf (what, sizeof what, "pop"); hist_add ("%s ", what);
      vel_t e = VARR_POP (vel_t, v); mlen--;
      if (e.a != model[mlen].a || e.b != model[mlen].b) { vp_viol ("varr-pop", "case=%ld pop returned %d, model %d\nhistory: %s", cur_case, e.a, model[mlen].a, hist); break; }
    } else if (op < 58 && mlen > 0) {
      size_t i = vp_below (&r, mlen); vel_t e = {ctr++, 7};
      snprintf (what, sizeof what, "set(%zu,%d)", i, e.a); hist_add ("%s ", what);
      VARR_SET (vel_t, v, i, e); model[i] = e;
    } else if (op < 66 && mlen > 0) {
      size_t ns = vp_below (&r, mlen + 1);
      snprintf (what, sizeof what, "trunc(%zu)", ns); hist_add ("%s ", what);
      VARR_TRUNC (vel_t, v, ns); mlen = ns;
    } else if (op < 74) {
      size_t ns = vp_below (&r, tier ? 3000 : 400), oldcap = VARR_CAPACITY (vel_t, v);
      snprintf (what, sizeof what, "expand(%zu)", ns); hist_add ("%s ", what);
      int ch = VARR_EXPAND (vel_t, v, ns);
      if (ch != (oldcap < ns) || VARR_CAPACITY (vel_t, v) < ns) { vp_viol ("varr-expand", "case=%ld expand(%zu) returned %d cap %zu->%zu\nhistory: %s", cur_case, ns, ch, oldcap, VARR_CAPACITY (vel_t, v), hist); break; }
    } else if (op < 80) {
      size_t ns = vp_below (&r, tier ? 2000 : 300);
      snprintf (what, sizeof what, "tailor(%zu)", ns); hist_add ("%s ", what);
      VARR_TAILOR (vel_t, v, ns);
      if (VARR_CAPACITY (vel_t, v) != ns) { vp_viol ("varr-tailor", "case=%ld tailor(%zu): capacity %zu\nhistory: %s", cur_case, ns, VARR_CAPACITY (vel_t, v), hist); break; }
      /* elements below min(old len, ns) keep values; new ones are indeterminate: define them now */
      for (size_t i = mlen; i < ns; i++) { vel_t e = {ctr++, 3}; VARR_SET (vel_t, v, i, e); model[i] = e; }
      mlen = ns;
    } else if (op < 90 && mlen < 180000) {
      vel_t arr[40]; size_t len = vp_below (&r, 41);
      for (size_t i = 0; i < len; i++) { arr[i].a = ctr++; arr[i].b = 9; model[mlen + i] = arr[i]; }
      snprintf (what, sizeof what, "push_arr(%zu)", len); hist_add ("%s ", what);
      VARR_PUSH_ARR (vel_t, v, arr, len); mlen += len;
    } else if (mlen > 0) {
      snprintf (what, sizeof what, "last"); hist_add ("%s ", what);
      vel_t e = VARR_LAST (vel_t, v);
      if (e.a != model[mlen - 1].a) { vp_viol ("varr-last", "case=%ld last returned %d, model %d\nhistory: %s", cur_case, e.a, model[mlen - 1].a, hist); break; }
    }
    if (VARR_LENGTH (vel_t, v) != mlen) { vp_viol ("varr-length", "case=%ld after %s: length %zu, model %zu\nhistory: %s", cur_case, what, VARR_LENGTH (vel_t, v), mlen, hist); break; }
    if (VARR_CAPACITY (vel_t, v) < mlen) { vp_viol ("varr-capacity", "case=%ld after %s: capacity %zu < length %zu\nhistory: %s", cur_case, what, VARR_CAPACITY (vel_t, v), mlen, hist); break; }
    /* content: full compare every few ops (ASan guards the reads), sampled otherwise */
    if (n % 16 == 0 || mlen < 64) {
      vel_t *addr = VARR_ADDR (vel_t, v); size_t i; vel_t el; int bad = 0;
      for (i = 0; i < mlen; i++) if (addr[i].a != model[i].a || addr[i].b != model[i].b) { bad = 1; break; }
      if (!bad) { size_t cnt = 0; VARR_FOREACH_ELEM (vel_t, v, i, el) { if (el.a != model[i].a) bad = 1; cnt++; } if (cnt != mlen) bad = 1; }
      if (bad) { vp_viol ("varr-content", "case=%ld after %s: content differs at %zu\nhistory: %s", cur_case, what, i, hist); break; }
    } else if (mlen) {
      size_t i = vp_below (&r, mlen);
      if (VARR_GET (vel_t, v, i).a != model[i].a) { vp_viol ("varr-content", "case=%ld after %s: get(%zu) differs\nhistory: %s", cur_case, what, i, hist); break; }
    }
    if (alloc_errors) break;
  }
  nontrivial++;
  VARR_DESTROY (vel_t, v);
  if (v != NULL) vp_viol ("varr-destroy", "case=%ld destroy did not null the handle", cur_case);
  check_alloc_end ("varr", hist);
}

/* ------------------------------------------------------------------ DLIST */
typedef struct node *node_t;
DEF_DLIST_LINK (node_t);
struct node { int v; DLIST_LINK (node_t) link; int in; };
DEF_DLIST (node_t, link);

#define DMAX 64
static int dl_check (DLIST (node_t) * l, node_t *model, int mlen, const char *after) {
  node_t e; int i;
  if ((int) DLIST_LENGTH (node_t, *l) != mlen) { vp_viol ("dlist-length", "case=%ld mode=%s after %s: length %zu model %d\nhistory: %s", cur_case, cur_mode, after, DLIST_LENGTH (node_t, *l), mlen, hist); return 0; }
  if (DLIST_HEAD (node_t, *l) != (mlen ? model[0] : NULL) || DLIST_TAIL (node_t, *l) != (mlen ? model[mlen - 1] : NULL)) {
    vp_viol ("dlist-ends", "case=%ld mode=%s after %s: head/tail wrong\nhistory: %s", cur_case, cur_mode, after, hist); return 0; }
  for (e = DLIST_HEAD (node_t, *l), i = 0; e != NULL && i <= mlen; e = DLIST_NEXT (node_t, e), i++)
    if (i >= mlen || e != model[i]) { vp_viol ("dlist-forward", "case=%ld mode=%s after %s: forward walk differs at %d\nhistory: %s", cur_case, cur_mode, after, i, hist); return 0; }
  if (i != mlen) { vp_viol ("dlist-forward", "case=%ld mode=%s after %s: forward walk has %d elems, model %d\nhistory: %s", cur_case, cur_mode, after, i, mlen, hist); return 0; }
  for (e = DLIST_TAIL (node_t, *l), i = mlen - 1; e != NULL && i >= -1; e = DLIST_PREV (node_t, e), i--)
    if (i < 0 || e != model[i]) { vp_viol ("dlist-backward", "case=%ld mode=%s after %s: backward walk differs at %d\nhistory: %s", cur_case, cur_mode, after, i, hist); return 0; }
  if (i != -1) { vp_viol ("dlist-backward", "case=%ld mode=%s after %s: backward walk short\nhistory: %s", cur_case, cur_mode, after, hist); return 0; }
  for (int n = -mlen - 2; n <= mlen + 1; n++) {
    node_t exp = n >= 0 ? (n < mlen ? model[n] : NULL) : (-n <= mlen ? model[mlen + n] : NULL);
    if (DLIST_EL (node_t, *l, n) != exp) { vp_viol ("dlist-el", "case=%ld mode=%s after %s: el(%d) wrong\nhistory: %s", cur_case, cur_mode, after, n, hist); return 0; }
  }
  return 1;
}
/* op kinds: 0 prepend x, 1 append x, 2 insert_before(y,x), 3 insert_after(y,x), 4 remove x.  Returns 1 if applied */
static int dl_apply (DLIST (node_t) * l, node_t *model, int *mlen, int op, node_t x, node_t y) {
  int i, pos;
  switch (op) {
  case 0: if (x->in) return 0; DLIST_PREPEND (node_t, *l, x); memmove (model + 1, model, sizeof (node_t) * *mlen); model[0] = x; (*mlen)++; x->in = 1; return 1;
  case 1: if (x->in) return 0; DLIST_APPEND (node_t, *l, x); model[(*mlen)++] = x; x->in = 1; return 1;
  case 2: case 3:
    if (x->in || !y->in) return 0;
    for (pos = 0; model[pos] != y; pos++) ;
    if (op == 3) pos++;
    if (op == 2) DLIST_INSERT_BEFORE (node_t, *l, y, x); else DLIST_INSERT_AFTER (node_t, *l, y, x);
    memmove (model + pos + 1, model + pos, sizeof (node_t) * (*mlen - pos)); model[pos] = x; (*mlen)++; x->in = 1; return 1;
  default:
    if (!x->in) return 0;
    for (i = 0; model[i] != x; i++) ;
    DLIST_REMOVE (node_t, *l, x);
    memmove (model + i, model + i + 1, sizeof (node_t) * (*mlen - i - 1)); (*mlen)--; x->in = 0;
    if (x->link.prev != NULL || x->link.next != NULL) { vp_viol ("dlist-remove-links", "case=%ld removed element keeps links", cur_case); }
    return 1;
  }
}
#define DEXH_NODES 4
#define DEXH_NOPS (DEXH_NODES * 3 + DEXH_NODES * DEXH_NODES * 2) /* prepend/append/remove x ; before/after (y,x) */
static long dl_applied;
static void dlist_exh_case (long idx, int len) {
  struct node nodes[DEXH_NODES]; node_t model[DMAX]; int mlen = 0;
  DLIST (node_t) l;
  memset (nodes, 0, sizeof nodes);
  for (int i = 0; i < DEXH_NODES; i++) nodes[i].v = i;
  DLIST_INIT (node_t, l); hist_reset ();
  if (!dl_check (&l, model, 0, "init")) return;
  for (int s = 0; s < len; s++) {
    int o = (int) (idx % DEXH_NOPS); idx /= DEXH_NOPS;
    int op, x, y = 0;
    if (o < DEXH_NODES * 3) { op = o / DEXH_NODES; if (op == 2) op = 4; x = o % DEXH_NODES; }
    else { o -= DEXH_NODES * 3; op = 2 + o / (DEXH_NODES * DEXH_NODES); o %= DEXH_NODES * DEXH_NODES; y = o / DEXH_NODES; x = o % DEXH_NODES; }
    if (x == y && (op == 2 || op == 3)) return; /* illegal; whole sequence skipped (counted by enumeration, prefix covered elsewhere) */
    static const char *nm[] = {"prepend", "append", "insert_before", "insert_after", "remove"};
    if (!dl_apply (&l, model, &mlen, op, &nodes[x], &nodes[y])) return; /* precondition not met: skip */
    hist_add ("%s(%d%s%.0d) ", nm[op], x, (op == 2 || op == 3) ? " rel " : "", (op == 2 || op == 3) ? y + 1 : 0);
    dl_applied++;
    if (!dl_check (&l, model, mlen, nm[op])) return;
  }
  nontrivial++; /* every op of the sequence was applicable */
}
static void dlist_rnd_case (long idx, uint64_t seed, int tier) {
  vp_rng_t r = vp_case_rng (seed, 0x1904, idx);
  static struct node nodes[DMAX]; node_t model[DMAX]; int mlen = 0;
  DLIST (node_t) l;
  int nn = (int) vp_range (&r, 1, DMAX - 1);
  long nops = tier ? vp_range (&r, 100, 3000) : vp_range (&r, 20, 400);
  memset (nodes, 0, sizeof nodes);
  DLIST_INIT (node_t, l); hist_reset ();
  for (long n = 0; n < nops; n++) {
    int op = (int) vp_below (&r, 5), x = (int) vp_below (&r, nn), y = (int) vp_below (&r, nn);
    if (x == y) continue;
    if (hist_len > 3000) { hist_reset (); hist_add ("(elided) "); }
    if (!dl_apply (&l, model, &mlen, op, &nodes[x], &nodes[y])) continue;
    hist_add ("op%d(%d,%d) ", op, x, y);
    dl_applied++;
    if (!dl_check (&l, model, mlen, "op")) return;
  }
  nontrivial++;
}

/* ------------------------------------------------------------------ main */
int main (int argc, char **argv) {
  vp_args_t a = vp_parse_args (argc, argv);
  int len = atoi (a.extra[0] ? a.extra : "0");
  int query = 0;
  for (int i = 1; i < argc; i++) if (!strcmp (argv[i], "--query")) query = 1;
  cur_mode = a.mode; verbose = a.verbose;
  if (query) {
    long t = 0;
    if (!strcmp (a.mode, "htab-exh")) t = 4 * ipow (HEXH_NOPS, len);
    else if (!strcmp (a.mode, "bm-grid")) t = bm_grid_total (len);
    else if (!strcmp (a.mode, "dlist-exh")) t = ipow (DEXH_NOPS, len);
    printf ("TOTAL %ld\n", t);
    return 0;
  }
  if (!strcmp (a.mode, "bm-grid")) for (int i = 0; i < 4; i++) gbm[i] = bitmap_create (&ck_alloc);
  long done = 0;
  for (long c = a.start; c < a.start + a.count; c++) {
    cur_case = c;
    if ((c & 0xff) == 0 || a.count < 1000) vp_case_begin (c);
    if (!strcmp (a.mode, "htab-exh")) htab_exh_case (c, len);
    else if (!strcmp (a.mode, "htab-rnd")) htab_rnd_case (c, a.seed, a.tier);
    else if (!strcmp (a.mode, "bm-grid")) bm_grid_case (c, len);
    else if (!strcmp (a.mode, "bm-rnd")) bm_rnd_case (c, a.seed, a.tier);
    else if (!strcmp (a.mode, "varr-rnd")) varr_rnd_case (c, a.seed, a.tier);
    else if (!strcmp (a.mode, "dlist-exh")) dlist_exh_case (c, len);
    else if (!strcmp (a.mode, "dlist-rnd")) dlist_rnd_case (c, a.seed, a.tier);
    else { fprintf (stderr, "unknown mode %s\n", a.mode); return 3; }
    done++;
    if (a.verbose && a.count == 1) printf ("NOTE history: %s\n", hist);
  }
  if (a.start == 0 && hist_len) vp_sample ("%s: %s", a.mode, hist);
  printf ("EV cases_%s %ld\n", a.mode, done);
  printf ("EV cases %ld\n", done);
  printf ("EV nontrivial %ld\n", nontrivial);
  printf ("EV htab_free_calls %ld\nEV alloc_malloc %ld\nEV alloc_realloc %ld\nEV alloc_free %ld\nEV dlist_ops_applied %ld\n", free_total, n_malloc, n_realloc, n_free, dl_applied);
  return 0;
}
