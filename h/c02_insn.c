/* C02: every instruction computes its documented result for all operand values / forms, on every engine.
   One case = one opcode: a module with one tiny function per operand form (reg, dst==src, src1==src2, memory of every
   legal type, base/index/scale/disp addressing, immediates specialised per grid value) is scanned, linked and run on
   interp, interp through the C interface, gen -O0..-O3; every result is compared with the reference semantics (sem.h).
   All functions have the shape  void f (uint8_t *cell)  so that no calling-convention detail is involved. */
#include "vp_mir.h"
#include "sem.h"
#include <float.h>

#define CELL 64
#define OFF_R 0
#define OFF_A 16
#define OFF_B 32
#define OFF_F 48 /* overflow flag / second result */

static const int64_t ivals[] = {0, 1, -1, 2, -2, 3, 7, 8, 15, 16, 31, 32, 33, 63, 64, 127, 128, -128, -129, 255, 256, 32767, 32768, -32768, -32769, 65535, 65536,
                                2147483647LL, 2147483648LL, -2147483648LL, -2147483649LL, 4294967295LL, 4294967296LL, 4294967297LL, 0x7fffffff00000000LL, 0x100000000LL - 2,
                                9223372036854775807LL, (-9223372036854775807LL - 1), -9223372036854775807LL, 0x0123456789abcdefLL, (int64_t) 0xfedcba9876543210ULL, 0x5555555555555555LL,
                                (int64_t) 0xaaaaaaaaaaaaaaaaULL, 1000000007LL, -1000000007LL, 0x80000001LL};
#define NIV ((int) (sizeof ivals / sizeof ivals[0]))
static double dvals[32]; static float fvals[32]; static long double ldvals[32]; static int nfv;
static void init_fvals (void) {
  static const double base[] = {0.0, -0.0, 1.0, -1.0, 0.5, 1.5, 2.0, 3.0, 1e10, -1e10, 1e-10, 0.1, 1.0 / 3.0, 16777216.0, 16777217.0, 9007199254740992.0, 9223372036854775808.0,
                                18446744073709551616.0, 1e300, -1e300, 1e-300, 2147483648.0, -2147483649.0, 123456.789};
  nfv = 0;
  for (unsigned i = 0; i < sizeof base / sizeof base[0]; i++) { dvals[nfv] = base[i]; fvals[nfv] = (float) base[i]; ldvals[nfv] = (long double) base[i]; nfv++; }
  dvals[nfv] = INFINITY; fvals[nfv] = INFINITY; ldvals[nfv] = INFINITY; nfv++;
  dvals[nfv] = -INFINITY; fvals[nfv] = -INFINITY; ldvals[nfv] = -INFINITY; nfv++;
  dvals[nfv] = NAN; fvals[nfv] = NAN; ldvals[nfv] = NAN; nfv++;
  dvals[nfv] = DBL_MAX; fvals[nfv] = FLT_MAX; ldvals[nfv] = LDBL_MAX; nfv++;
  dvals[nfv] = DBL_MIN; fvals[nfv] = FLT_MIN; ldvals[nfv] = LDBL_MIN; nfv++;
  dvals[nfv] = 4.9406564584124654e-324; fvals[nfv] = 1.40129846e-45f; ldvals[nfv] = 3.64519953188247460253e-4951L; nfv++;
}

/* ---------------------------------------------------------------- function table of the current case */
enum shape { SH_I3, SH_I2, SH_IBR2, SH_IBR1, SH_OVF, SH_F3, SH_F2, SH_FCMP, SH_FBR, SH_CONV };
typedef struct {
  char name[24];
  char form[40];          /* description for reports */
  MIR_type_t ta, tb, tr;  /* memory types through which a, b are read and r written (I64 / F / D / LD for plain register forms) */
  int imm_a, imm_b;       /* operand is an immediate: index into value grid, else -1 */
  int same;               /* src1 == src2: b := a */
  int flag_kind;          /* SH_OVF: 0 bo 1 bno 2 ubo 3 ubno */
} fn_t;
#define MAXFN 400
static int fn_start;
static fn_t fns[MAXFN];
static int nfns;
static char text[1 << 19];
static int tlen;
static void T (const char *fmt, ...) { va_list ap; va_start (ap, fmt); tlen += vsnprintf (text + tlen, sizeof text - tlen, fmt, ap); va_end (ap); }
static const char *tname (MIR_type_t t) {
  static const char *n[] = {"i8", "u8", "i16", "u16", "i32", "u32", "i64", "u64", "f", "d", "ld", "p"};
  return n[t];
}
static fn_t *new_fn (const char *form, MIR_type_t ta, MIR_type_t tb, MIR_type_t tr) {
  fn_t *f = &fns[nfns];
  memset (f, 0, sizeof *f);
  snprintf (f->name, sizeof f->name, "f%d", nfns);
  snprintf (f->form, sizeof f->form, "%s", form);
  f->ta = ta; f->tb = tb; f->tr = tr; f->imm_a = f->imm_b = -1;
  nfns++;
  fn_start = tlen;
  T ("%s: func i64:p\n local i64:a, i64:b, i64:r, i64:q, i64:i, f:fa, f:fb, f:fr, d:da, d:db, d:dr, ld:la, ld:lb, ld:lr\n", f->name);
  return f;
}
/* labels have module scope: rename the standalone identifiers L and E of the function just emitted to L<k> / E<k> */
static void end_fn (void) {
  static char tmp[1 << 14];
  int o = 0, k = nfns - 1;
  for (int i = fn_start; i < tlen; i++) {
    char c = text[i], prev = i > fn_start ? text[i - 1] : '\n', next = i + 1 < tlen ? text[i + 1] : '\n';
    if ((c == 'L' || c == 'E') && (prev == ' ' || prev == '\n') && (next == ',' || next == ':' || next == '\n')) o += snprintf (tmp + o, sizeof tmp - o, "%c%d", c, k);
    else tmp[o++] = c;
  }
  memcpy (text + fn_start, tmp, o); tlen = fn_start + o; text[tlen] = 0;
  T (" ret\n endfunc\n export f%d\n", k);
}

static const MIR_type_t int_types[] = {MIR_T_I8, MIR_T_U8, MIR_T_I16, MIR_T_U16, MIR_T_I32, MIR_T_U32, MIR_T_I64, MIR_T_U64, MIR_T_P};

static const char *opname;
static MIR_insn_code_t opcode;
static enum shape shape;

/* textual immediate of grid value */
static void imm_text (char *dst, int kind, int idx) {
  if (kind == 'i') snprintf (dst, 64, "%lld", (long long) ivals[idx]);
  else if (kind == 0) snprintf (dst, 64, "%.9ef", (double) fvals[idx]);
  else if (kind == 1) snprintf (dst, 64, "%.17e", dvals[idx]);
  else snprintf (dst, 64, "%.21LeL", ldvals[idx]);
}
static int fp_imm_ok (int kind, int idx) { return kind == 0 ? isfinite (fvals[idx]) : kind == 1 ? isfinite (dvals[idx]) : isfinite (ldvals[idx]); }

/* register class letters for the three FP kinds */
static const char *fpa[] = {"fa", "da", "la"}, *fpb[] = {"fb", "db", "lb"}, *fpr[] = {"fr", "dr", "lr"}, *fpmov[] = {"fmov", "dmov", "ldmov"};
static const MIR_type_t fpt[] = {MIR_T_F, MIR_T_D, MIR_T_LD};

static void gen_int3 (void) {
  fn_t *f;
  int divlike = opcode == MIR_DIV || opcode == MIR_DIVS || opcode == MIR_UDIV || opcode == MIR_UDIVS || opcode == MIR_MOD || opcode == MIR_MODS || opcode == MIR_UMOD || opcode == MIR_UMODS;
  int shift = opcode == MIR_LSH || opcode == MIR_RSH || opcode == MIR_URSH || opcode == MIR_LSHS || opcode == MIR_RSHS || opcode == MIR_URSHS;
  f = new_fn ("r,a,b (regs)", MIR_T_I64, MIR_T_I64, MIR_T_I64); T (" mov a, i64:%d(p)\n mov b, i64:%d(p)\n %s r, a, b\n mov i64:0(p), r\n", OFF_A, OFF_B, opname); end_fn ();
  f = new_fn ("a,a,b (dst==src1)", MIR_T_I64, MIR_T_I64, MIR_T_I64); T (" mov a, i64:%d(p)\n mov b, i64:%d(p)\n %s a, a, b\n mov i64:0(p), a\n", OFF_A, OFF_B, opname); end_fn ();
  f = new_fn ("b,a,b (dst==src2)", MIR_T_I64, MIR_T_I64, MIR_T_I64); T (" mov a, i64:%d(p)\n mov b, i64:%d(p)\n %s b, a, b\n mov i64:0(p), b\n", OFF_A, OFF_B, opname); end_fn ();
  f = new_fn ("r,a,a (src1==src2)", MIR_T_I64, MIR_T_I64, MIR_T_I64); f->same = 1; T (" mov a, i64:%d(p)\n %s r, a, a\n mov i64:0(p), r\n", OFF_A, opname); end_fn ();
  f = new_fn ("a,a,a (all same)", MIR_T_I64, MIR_T_I64, MIR_T_I64); f->same = 1; T (" mov a, i64:%d(p)\n %s a, a, a\n mov i64:0(p), a\n", OFF_A, opname); end_fn ();
  for (int k = 0; k < 9; k++) { /* all three operands memory of one type */
    MIR_type_t t = int_types[k]; char fm[40]; snprintf (fm, sizeof fm, "%s:m,%s:m,%s:m", tname (t), tname (t), tname (t));
    f = new_fn (fm, t, t, t); T (" %s %s:0(p), %s:%d(p), %s:%d(p)\n", opname, tname (t), tname (t), OFF_A, tname (t), OFF_B); end_fn ();
  }
  for (int k = 0; k < 9; k++) { /* mixed: reg result, memory inputs of different signedness */
    MIR_type_t t = int_types[k], t2 = int_types[(k + 3) % 9]; char fm[40]; snprintf (fm, sizeof fm, "r,%s:m,%s:m", tname (t), tname (t2));
    f = new_fn (fm, t, t2, MIR_T_I64); T (" %s r, %s:%d(p), %s:%d(p)\n mov i64:0(p), r\n", opname, tname (t), OFF_A, tname (t2), OFF_B); end_fn ();
  }
  /* addressing modes: base+index*scale+disp, negative disp, index only */
  f = new_fn ("r,i64:(q,i,8),i64:-16(q)", MIR_T_I64, MIR_T_I64, MIR_T_I64); T (" add q, p, %d\n mov i, 2\n %s r, i64:-%d(q, i, 8), i64:-16(q)\n mov i64:0(p), r\n", OFF_B + 16, opname, OFF_B + 16 - OFF_A + 16); end_fn ();
  f = new_fn ("i32:(p,i,4) dst, a, b", MIR_T_I64, MIR_T_I64, MIR_T_I32); T (" mov a, i64:%d(p)\n mov b, i64:%d(p)\n mov i, 0\n %s i32:(p, i, 4), a, b\n", OFF_A, OFF_B, opname); end_fn ();
  f = new_fn ("r,u16:(p,i,2),b", MIR_T_U16, MIR_T_I64, MIR_T_I64); T (" mov b, i64:%d(p)\n mov i, %d\n %s r, u16:(p, i, 2), b\n mov i64:0(p), r\n", OFF_B, OFF_A / 2, opname); end_fn ();
  /* immediates, one function per grid value */
  for (int v = 0; v < NIV; v++) {
    char im[64], fm[40]; imm_text (im, 'i', v);
    if (shift && (ivals[v] < 0 || ivals[v] >= (sem_is32 (opcode) ? 32 : 64))) continue;
    if (divlike && (ivals[v] == 0 || (int32_t) ivals[v] == 0 || ivals[v] == -1 || (int32_t) ivals[v] == -1)) continue; /* a constant divisor that can make the insn undefined */
    snprintf (fm, sizeof fm, "r,a,imm %s", im); f = new_fn (fm, MIR_T_I64, MIR_T_I64, MIR_T_I64); f->imm_b = v; T (" mov a, i64:%d(p)\n %s r, a, %s\n mov i64:0(p), r\n", OFF_A, opname, im); end_fn ();
    if (nfns >= MAXFN - 4) break;
  }
  for (int v = 0; v < NIV && nfns < MAXFN - 2; v++) {
    char im[64], fm[40]; imm_text (im, 'i', v);
    snprintf (fm, sizeof fm, "r,imm %s,b", im); f = new_fn (fm, MIR_T_I64, MIR_T_I64, MIR_T_I64); f->imm_a = v; T (" mov b, i64:%d(p)\n %s r, %s, b\n mov i64:0(p), r\n", OFF_B, opname, im); end_fn ();
  }
  /* both immediates for a few values (constant folding) */
  for (int v = 0; v < NIV && nfns < MAXFN - 2; v += 5) {
    int w = (v * 7 + 3) % NIV; char im[64], im2[64], fm[40]; imm_text (im, 'i', v); imm_text (im2, 'i', w);
    if (shift && (ivals[w] < 0 || ivals[w] >= (sem_is32 (opcode) ? 32 : 64))) continue;
    if (divlike && (ivals[w] == 0 || (int32_t) ivals[w] == 0 || ivals[w] == -1 || (int32_t) ivals[w] == -1)) continue;
    snprintf (fm, sizeof fm, "r,imm,imm"); f = new_fn (fm, MIR_T_I64, MIR_T_I64, MIR_T_I64); f->imm_a = v; f->imm_b = w; T (" %s r, %s, %s\n mov i64:0(p), r\n", opname, im, im2); end_fn ();
  }
}
static void gen_int2 (void) {
  fn_t *f;
  f = new_fn ("r,a", MIR_T_I64, MIR_T_I64, MIR_T_I64); T (" mov a, i64:%d(p)\n %s r, a\n mov i64:0(p), r\n", OFF_A, opname); end_fn ();
  f = new_fn ("a,a (dst==src)", MIR_T_I64, MIR_T_I64, MIR_T_I64); T (" mov a, i64:%d(p)\n %s a, a\n mov i64:0(p), a\n", OFF_A, opname); end_fn ();
  for (int k = 0; k < 9; k++) for (int k2 = 0; k2 < 9; k2 += 2) {
    MIR_type_t t = int_types[k], t2 = int_types[k2]; char fm[40]; snprintf (fm, sizeof fm, "%s:m,%s:m", tname (t2), tname (t));
    f = new_fn (fm, t, MIR_T_I64, t2); T (" %s %s:0(p), %s:%d(p)\n", opname, tname (t2), tname (t), OFF_A); end_fn ();
  }
  for (int v = 0; v < NIV && nfns < MAXFN - 2; v++) {
    char im[64], fm[40]; imm_text (im, 'i', v); snprintf (fm, sizeof fm, "r,imm %s", im);
    f = new_fn (fm, MIR_T_I64, MIR_T_I64, MIR_T_I64); f->imm_a = v; T (" %s r, %s\n mov i64:0(p), r\n", opname, im); end_fn ();
  }
}
static void gen_ibr (int two) {
  fn_t *f;
  const char *tail = " mov r, 0\n jmp E\nL: mov r, 1\nE: mov i64:0(p), r\n";
  if (two) {
    f = new_fn ("L,a,b", MIR_T_I64, MIR_T_I64, MIR_T_I64); T (" mov a, i64:%d(p)\n mov b, i64:%d(p)\n %s L, a, b\n%s", OFF_A, OFF_B, opname, tail); end_fn ();
    f = new_fn ("L,a,a", MIR_T_I64, MIR_T_I64, MIR_T_I64); f->same = 1; T (" mov a, i64:%d(p)\n %s L, a, a\n%s", OFF_A, opname, tail); end_fn ();
    for (int k = 0; k < 9; k++) { MIR_type_t t = int_types[k], t2 = int_types[(k + 4) % 9]; char fm[40]; snprintf (fm, sizeof fm, "L,%s:m,%s:m", tname (t), tname (t2));
      f = new_fn (fm, t, t2, MIR_T_I64); T (" %s L, %s:%d(p), %s:%d(p)\n%s", opname, tname (t), OFF_A, tname (t2), OFF_B, tail); end_fn (); }
    for (int v = 0; v < NIV && nfns < MAXFN - 2; v++) { char im[64], fm[40]; imm_text (im, 'i', v); snprintf (fm, sizeof fm, "L,a,imm %s", im);
      f = new_fn (fm, MIR_T_I64, MIR_T_I64, MIR_T_I64); f->imm_b = v; T (" mov a, i64:%d(p)\n %s L, a, %s\n%s", OFF_A, opname, im, tail); end_fn (); }
    for (int v = 0; v < NIV && nfns < MAXFN - 2; v += 2) { char im[64], fm[40]; imm_text (im, 'i', v); snprintf (fm, sizeof fm, "L,imm %s,b", im);
      f = new_fn (fm, MIR_T_I64, MIR_T_I64, MIR_T_I64); f->imm_a = v; T (" mov b, i64:%d(p)\n %s L, %s, b\n%s", OFF_B, opname, im, tail); end_fn (); }
  } else {
    f = new_fn ("L,a", MIR_T_I64, MIR_T_I64, MIR_T_I64); T (" mov a, i64:%d(p)\n %s L, a\n%s", OFF_A, opname, tail); end_fn ();
    for (int k = 0; k < 9; k++) { MIR_type_t t = int_types[k]; char fm[40]; snprintf (fm, sizeof fm, "L,%s:m", tname (t));
      f = new_fn (fm, t, MIR_T_I64, MIR_T_I64); T (" %s L, %s:%d(p)\n%s", opname, tname (t), OFF_A, tail); end_fn (); }
    for (int v = 0; v < NIV && nfns < MAXFN - 2; v++) { char im[64], fm[40]; imm_text (im, 'i', v); snprintf (fm, sizeof fm, "L,imm %s", im);
      f = new_fn (fm, MIR_T_I64, MIR_T_I64, MIR_T_I64); f->imm_a = v; T (" %s L, %s\n%s", opname, im, tail); end_fn (); }
  }
}
static void gen_ovf (void) {
  static const char *br[] = {"bo", "bno", "ubo", "ubno"};
  int signed_only = opcode == MIR_MULO || opcode == MIR_MULOS, unsigned_only = opcode == MIR_UMULO || opcode == MIR_UMULOS;
  for (int k = 0; k < 4; k++) {
    if ((signed_only && k >= 2) || (unsigned_only && k < 2)) continue;
    fn_t *f; char fm[40];
    snprintf (fm, sizeof fm, "r,a,b; %s", br[k]);
    f = new_fn (fm, MIR_T_I64, MIR_T_I64, MIR_T_I64); f->flag_kind = k;
    T (" mov a, i64:%d(p)\n mov b, i64:%d(p)\n %s r, a, b\n %s L\n mov q, 0\n jmp E\nL: mov q, 1\nE: mov i64:0(p), r\n mov i64:%d(p), q\n", OFF_A, OFF_B, opname, br[k], OFF_F); end_fn ();
    snprintf (fm, sizeof fm, "r,a,b; mov; %s", br[k]);
    f = new_fn (fm, MIR_T_I64, MIR_T_I64, MIR_T_I64); f->flag_kind = k;
    T (" mov a, i64:%d(p)\n mov b, i64:%d(p)\n %s r, a, b\n mov i, r\n %s L\n mov q, 0\n jmp E\nL: mov q, 1\nE: mov i64:0(p), i\n mov i64:%d(p), q\n", OFF_A, OFF_B, opname, br[k], OFF_F); end_fn ();
    snprintf (fm, sizeof fm, "i32:m,i32:m,i32:m; %s", br[k]);
    f = new_fn (fm, MIR_T_I32, MIR_T_I32, MIR_T_I32); f->flag_kind = k;
    T (" %s i32:0(p), i32:%d(p), i32:%d(p)\n %s L\n mov q, 0\n jmp E\nL: mov q, 1\nE: mov i64:%d(p), q\n", opname, OFF_A, OFF_B, br[k], OFF_F); end_fn ();
    for (int v = 0; v < NIV && nfns < MAXFN - 2; v++) { char im[64]; imm_text (im, 'i', v); snprintf (fm, sizeof fm, "r,a,imm %s; %s", im, br[k]);
      f = new_fn (fm, MIR_T_I64, MIR_T_I64, MIR_T_I64); f->flag_kind = k; f->imm_b = v;
      T (" mov a, i64:%d(p)\n %s r, a, %s\n %s L\n mov q, 0\n jmp E\nL: mov q, 1\nE: mov i64:0(p), r\n mov i64:%d(p), q\n", OFF_A, opname, im, br[k], OFF_F); end_fn (); }
  }
}
static void gen_f3 (int k, int unary) {
  fn_t *f; MIR_type_t t = fpt[k];
  if (unary) {
    f = new_fn ("r,a", t, t, t); T (" %s %s, %s:%d(p)\n %s %s, %s\n %s %s:0(p), %s\n", fpmov[k], fpa[k], tname (t), OFF_A, opname, fpr[k], fpa[k], fpmov[k], tname (t), fpr[k]); end_fn ();
    f = new_fn ("a,a", t, t, t); T (" %s %s, %s:%d(p)\n %s %s, %s\n %s %s:0(p), %s\n", fpmov[k], fpa[k], tname (t), OFF_A, opname, fpa[k], fpa[k], fpmov[k], tname (t), fpa[k]); end_fn ();
    f = new_fn ("m,m", t, t, t); T (" %s %s:0(p), %s:%d(p)\n", opname, tname (t), tname (t), OFF_A); end_fn ();
    for (int v = 0; v < nfv; v++) if (fp_imm_ok (k, v)) { char im[64], fm[40]; imm_text (im, k, v); snprintf (fm, sizeof fm, "r,imm %s", im);
      f = new_fn (fm, t, t, t); f->imm_a = v; T (" %s %s, %s\n %s %s:0(p), %s\n", opname, fpr[k], im, fpmov[k], tname (t), fpr[k]); end_fn (); }
    return;
  }
  f = new_fn ("r,a,b", t, t, t); T (" %s %s, %s:%d(p)\n %s %s, %s:%d(p)\n %s %s, %s, %s\n %s %s:0(p), %s\n", fpmov[k], fpa[k], tname (t), OFF_A, fpmov[k], fpb[k], tname (t), OFF_B, opname, fpr[k], fpa[k], fpb[k], fpmov[k], tname (t), fpr[k]); end_fn ();
  f = new_fn ("a,a,b", t, t, t); T (" %s %s, %s:%d(p)\n %s %s, %s:%d(p)\n %s %s, %s, %s\n %s %s:0(p), %s\n", fpmov[k], fpa[k], tname (t), OFF_A, fpmov[k], fpb[k], tname (t), OFF_B, opname, fpa[k], fpa[k], fpb[k], fpmov[k], tname (t), fpa[k]); end_fn ();
  f = new_fn ("b,a,b", t, t, t); T (" %s %s, %s:%d(p)\n %s %s, %s:%d(p)\n %s %s, %s, %s\n %s %s:0(p), %s\n", fpmov[k], fpa[k], tname (t), OFF_A, fpmov[k], fpb[k], tname (t), OFF_B, opname, fpb[k], fpa[k], fpb[k], fpmov[k], tname (t), fpb[k]); end_fn ();
  f = new_fn ("r,a,a", t, t, t); f->same = 1; T (" %s %s, %s:%d(p)\n %s %s, %s, %s\n %s %s:0(p), %s\n", fpmov[k], fpa[k], tname (t), OFF_A, opname, fpr[k], fpa[k], fpa[k], fpmov[k], tname (t), fpr[k]); end_fn ();
  f = new_fn ("m,m,m", t, t, t); T (" %s %s:0(p), %s:%d(p), %s:%d(p)\n", opname, tname (t), tname (t), OFF_A, tname (t), OFF_B); end_fn ();
  f = new_fn ("r,m(idx),b", t, t, t); T (" mov i, %d\n %s %s, %s:%d(p)\n %s %s, %s:(p, i, 8), %s\n %s %s:0(p), %s\n", OFF_A / 8, fpmov[k], fpb[k], tname (t), OFF_B, opname, fpr[k], tname (t), fpb[k], fpmov[k], tname (t), fpr[k]); end_fn ();
  for (int v = 0; v < nfv && nfns < MAXFN - 4; v++) if (fp_imm_ok (k, v)) { char im[64], fm[40]; imm_text (im, k, v);
    snprintf (fm, sizeof fm, "r,a,imm %s", im); f = new_fn (fm, t, t, t); f->imm_b = v;
    T (" %s %s, %s:%d(p)\n %s %s, %s, %s\n %s %s:0(p), %s\n", fpmov[k], fpa[k], tname (t), OFF_A, opname, fpr[k], fpa[k], im, fpmov[k], tname (t), fpr[k]); end_fn ();
    snprintf (fm, sizeof fm, "r,imm %s,b", im); f = new_fn (fm, t, t, t); f->imm_a = v;
    T (" %s %s, %s:%d(p)\n %s %s, %s, %s\n %s %s:0(p), %s\n", fpmov[k], fpb[k], tname (t), OFF_B, opname, fpr[k], im, fpb[k], fpmov[k], tname (t), fpr[k]); end_fn (); }
}
static void gen_fcmp (int k, int branch) {
  fn_t *f; MIR_type_t t = fpt[k];
  const char *tail = " mov r, 0\n jmp E\nL: mov r, 1\nE: mov i64:0(p), r\n";
  if (!branch) {
    f = new_fn ("r,a,b", t, t, MIR_T_I64); T (" %s %s, %s:%d(p)\n %s %s, %s:%d(p)\n %s r, %s, %s\n mov i64:0(p), r\n", fpmov[k], fpa[k], tname (t), OFF_A, fpmov[k], fpb[k], tname (t), OFF_B, opname, fpa[k], fpb[k]); end_fn ();
    f = new_fn ("r,a,a", t, t, MIR_T_I64); f->same = 1; T (" %s %s, %s:%d(p)\n %s r, %s, %s\n mov i64:0(p), r\n", fpmov[k], fpa[k], tname (t), OFF_A, opname, fpa[k], fpa[k]); end_fn ();
    f = new_fn ("i32:m,m,m", t, t, MIR_T_I32); T (" %s i32:0(p), %s:%d(p), %s:%d(p)\n", opname, tname (t), OFF_A, tname (t), OFF_B); end_fn ();
    for (int v = 0; v < nfv && nfns < MAXFN - 4; v++) if (fp_imm_ok (k, v)) { char im[64], fm[40]; imm_text (im, k, v);
      snprintf (fm, sizeof fm, "r,a,imm %s", im); f = new_fn (fm, t, t, MIR_T_I64); f->imm_b = v; T (" %s %s, %s:%d(p)\n %s r, %s, %s\n mov i64:0(p), r\n", fpmov[k], fpa[k], tname (t), OFF_A, opname, fpa[k], im); end_fn ();
      snprintf (fm, sizeof fm, "r,imm %s,b", im); f = new_fn (fm, t, t, MIR_T_I64); f->imm_a = v; T (" %s %s, %s:%d(p)\n %s r, %s, %s\n mov i64:0(p), r\n", fpmov[k], fpb[k], tname (t), OFF_B, opname, im, fpb[k]); end_fn (); }
  } else {
    f = new_fn ("L,a,b", t, t, MIR_T_I64); T (" %s %s, %s:%d(p)\n %s %s, %s:%d(p)\n %s L, %s, %s\n%s", fpmov[k], fpa[k], tname (t), OFF_A, fpmov[k], fpb[k], tname (t), OFF_B, opname, fpa[k], fpb[k], tail); end_fn ();
    f = new_fn ("L,a,a", t, t, MIR_T_I64); f->same = 1; T (" %s %s, %s:%d(p)\n %s L, %s, %s\n%s", fpmov[k], fpa[k], tname (t), OFF_A, opname, fpa[k], fpa[k], tail); end_fn ();
    f = new_fn ("L,m,m", t, t, MIR_T_I64); T (" %s L, %s:%d(p), %s:%d(p)\n%s", opname, tname (t), OFF_A, tname (t), OFF_B, tail); end_fn ();
    for (int v = 0; v < nfv && nfns < MAXFN - 4; v++) if (fp_imm_ok (k, v)) { char im[64], fm[40]; imm_text (im, k, v);
      snprintf (fm, sizeof fm, "L,a,imm %s", im); f = new_fn (fm, t, t, MIR_T_I64); f->imm_b = v; T (" %s %s, %s:%d(p)\n %s L, %s, %s\n%s", fpmov[k], fpa[k], tname (t), OFF_A, opname, fpa[k], im, tail); end_fn (); }
  }
}
static void gen_conv (int srck, int dstk) {
  fn_t *f;
  MIR_type_t ts = srck == 'i' ? MIR_T_I64 : fpt[srck], td = dstk == 'i' ? MIR_T_I64 : fpt[dstk];
  const char *sreg = srck == 'i' ? "a" : fpa[srck], *dreg = dstk == 'i' ? "r" : fpr[dstk];
  const char *smov = srck == 'i' ? "mov" : fpmov[srck], *dmov = dstk == 'i' ? "mov" : fpmov[dstk];
  f = new_fn ("r,a", ts, ts, td); T (" %s %s, %s:%d(p)\n %s %s, %s\n %s %s:0(p), %s\n", smov, sreg, tname (ts), OFF_A, opname, dreg, sreg, dmov, tname (td), dreg); end_fn ();
  f = new_fn ("m,m", ts, ts, td); T (" %s %s:0(p), %s:%d(p)\n", opname, tname (td), tname (ts), OFF_A); end_fn ();
  if (srck == 'i') {
    for (int k = 0; k < 9; k++) { MIR_type_t t = int_types[k]; char fm[40]; snprintf (fm, sizeof fm, "r,%s:m", tname (t));
      f = new_fn (fm, t, t, td); T (" %s %s, %s:%d(p)\n %s %s:0(p), %s\n", opname, dreg, tname (t), OFF_A, dmov, tname (td), dreg); end_fn (); }
    for (int v = 0; v < NIV && nfns < MAXFN - 2; v++) { char im[64], fm[40]; imm_text (im, 'i', v); snprintf (fm, sizeof fm, "r,imm %s", im);
      f = new_fn (fm, ts, ts, td); f->imm_a = v; T (" %s %s, %s\n %s %s:0(p), %s\n", opname, dreg, im, dmov, tname (td), dreg); end_fn (); }
  } else {
    if (dstk == 'i') for (int k = 0; k < 9; k += 2) { MIR_type_t t = int_types[k]; char fm[40]; snprintf (fm, sizeof fm, "%s:m,a", tname (t));
      f = new_fn (fm, ts, ts, t); T (" %s %s, %s:%d(p)\n %s %s:0(p), %s\n", smov, sreg, tname (ts), OFF_A, opname, tname (t), sreg); end_fn (); }
    for (int v = 0; v < nfv && nfns < MAXFN - 2; v++) if (fp_imm_ok (srck, v)) { char im[64], fm[40]; imm_text (im, srck, v); snprintf (fm, sizeof fm, "r,imm %s", im);
      f = new_fn (fm, ts, ts, td); f->imm_a = v; T (" %s %s, %s\n %s %s:0(p), %s\n", opname, dreg, im, dmov, tname (td), dreg); end_fn (); }
  }
}

/* ---------------------------------------------------------------- opcode list */
typedef struct { MIR_insn_code_t c; const char *n; enum shape s; int k, k2; } oc_t;
#define O(c, s) {MIR_##c, #c, s, 0, 0}
static const oc_t opcodes[] = {
  O (ADD, SH_I3), O (ADDS, SH_I3), O (SUB, SH_I3), O (SUBS, SH_I3), O (MUL, SH_I3), O (MULS, SH_I3), O (DIV, SH_I3), O (DIVS, SH_I3), O (UDIV, SH_I3), O (UDIVS, SH_I3),
  O (MOD, SH_I3), O (MODS, SH_I3), O (UMOD, SH_I3), O (UMODS, SH_I3), O (AND, SH_I3), O (ANDS, SH_I3), O (OR, SH_I3), O (ORS, SH_I3), O (XOR, SH_I3), O (XORS, SH_I3),
  O (LSH, SH_I3), O (LSHS, SH_I3), O (RSH, SH_I3), O (RSHS, SH_I3), O (URSH, SH_I3), O (URSHS, SH_I3),
  O (EQ, SH_I3), O (EQS, SH_I3), O (NE, SH_I3), O (NES, SH_I3), O (LT, SH_I3), O (LTS, SH_I3), O (ULT, SH_I3), O (ULTS, SH_I3), O (LE, SH_I3), O (LES, SH_I3), O (ULE, SH_I3), O (ULES, SH_I3),
  O (GT, SH_I3), O (GTS, SH_I3), O (UGT, SH_I3), O (UGTS, SH_I3), O (GE, SH_I3), O (GES, SH_I3), O (UGE, SH_I3), O (UGES, SH_I3),
  O (MOV, SH_I2), O (EXT8, SH_I2), O (EXT16, SH_I2), O (EXT32, SH_I2), O (UEXT8, SH_I2), O (UEXT16, SH_I2), O (UEXT32, SH_I2), O (NEG, SH_I2), O (NEGS, SH_I2),
  O (ADDO, SH_OVF), O (ADDOS, SH_OVF), O (SUBO, SH_OVF), O (SUBOS, SH_OVF), O (MULO, SH_OVF), O (MULOS, SH_OVF), O (UMULO, SH_OVF), O (UMULOS, SH_OVF),
  O (BT, SH_IBR1), O (BTS, SH_IBR1), O (BF, SH_IBR1), O (BFS, SH_IBR1),
  O (BEQ, SH_IBR2), O (BEQS, SH_IBR2), O (BNE, SH_IBR2), O (BNES, SH_IBR2), O (BLT, SH_IBR2), O (BLTS, SH_IBR2), O (UBLT, SH_IBR2), O (UBLTS, SH_IBR2),
  O (BLE, SH_IBR2), O (BLES, SH_IBR2), O (UBLE, SH_IBR2), O (UBLES, SH_IBR2), O (BGT, SH_IBR2), O (BGTS, SH_IBR2), O (UBGT, SH_IBR2), O (UBGTS, SH_IBR2),
  O (BGE, SH_IBR2), O (BGES, SH_IBR2), O (UBGE, SH_IBR2), O (UBGES, SH_IBR2),
  O (FADD, SH_F3), O (FSUB, SH_F3), O (FMUL, SH_F3), O (FDIV, SH_F3), O (DADD, SH_F3), O (DSUB, SH_F3), O (DMUL, SH_F3), O (DDIV, SH_F3), O (LDADD, SH_F3), O (LDSUB, SH_F3), O (LDMUL, SH_F3), O (LDDIV, SH_F3),
  O (FNEG, SH_F2), O (DNEG, SH_F2), O (LDNEG, SH_F2),
  O (FEQ, SH_FCMP), O (FNE, SH_FCMP), O (FLT, SH_FCMP), O (FLE, SH_FCMP), O (FGT, SH_FCMP), O (FGE, SH_FCMP), O (DEQ, SH_FCMP), O (DNE, SH_FCMP), O (DLT, SH_FCMP), O (DLE, SH_FCMP), O (DGT, SH_FCMP), O (DGE, SH_FCMP),
  O (LDEQ, SH_FCMP), O (LDNE, SH_FCMP), O (LDLT, SH_FCMP), O (LDLE, SH_FCMP), O (LDGT, SH_FCMP), O (LDGE, SH_FCMP),
  O (FBEQ, SH_FBR), O (FBNE, SH_FBR), O (FBLT, SH_FBR), O (FBLE, SH_FBR), O (FBGT, SH_FBR), O (FBGE, SH_FBR), O (DBEQ, SH_FBR), O (DBNE, SH_FBR), O (DBLT, SH_FBR), O (DBLE, SH_FBR), O (DBGT, SH_FBR), O (DBGE, SH_FBR),
  O (LDBEQ, SH_FBR), O (LDBNE, SH_FBR), O (LDBLT, SH_FBR), O (LDBLE, SH_FBR), O (LDBGT, SH_FBR), O (LDBGE, SH_FBR),
  O (I2F, SH_CONV), O (I2D, SH_CONV), O (I2LD, SH_CONV), O (UI2F, SH_CONV), O (UI2D, SH_CONV), O (UI2LD, SH_CONV), O (F2I, SH_CONV), O (D2I, SH_CONV), O (LD2I, SH_CONV),
  O (F2D, SH_CONV), O (F2LD, SH_CONV), O (D2F, SH_CONV), O (D2LD, SH_CONV), O (LD2F, SH_CONV), O (LD2D, SH_CONV), O (FMOV, SH_CONV), O (DMOV, SH_CONV), O (LDMOV, SH_CONV),
};
#define NOPC ((int) (sizeof opcodes / sizeof opcodes[0]))

static void lower (char *d, const char *s) { for (; *s; s++, d++) *d = (char) (*s >= 'A' && *s <= 'Z' ? *s + 32 : *s); *d = 0; }

/* ---------------------------------------------------------------- engines */
#define NENG 6
static const char *engname[NENG] = {"interp", "interp-C-interface", "gen-O0", "gen-O1", "gen-O2", "gen-O3"};
typedef struct { MIR_context_t ctx; MIR_item_t items[MAXFN]; int ok; } eng_t;
static eng_t eng[NENG];
static long cur_case;
static long n_evals, n_undef_skipped, n_funcs;

static int setup_engine (int e) {
  eng_t *g = &eng[e];
  g->ok = 0;
  g->ctx = e == 0 ? vp_new_ctx () : vp_more_ctx ();
  if (VP_TRY) {
    MIR_scan_string (g->ctx, text);
    MIR_module_t m = DLIST_TAIL (MIR_module_t, *MIR_get_module_list (g->ctx));
    MIR_load_module (g->ctx, m);
    if (e >= 2) { MIR_gen_init (g->ctx); MIR_gen_set_optimize_level (g->ctx, (unsigned) (e - 2)); }
    vp_watch (cur_case, engname[e], 300);
    MIR_link (g->ctx, e <= 1 ? MIR_set_interp_interface : MIR_set_gen_interface, NULL);
    alarm (0);
    int k = 0;
    for (MIR_item_t it = DLIST_HEAD (MIR_item_t, m->items); it != NULL; it = DLIST_NEXT (MIR_item_t, it))
      if (it->item_type == MIR_func_item && k < nfns) g->items[k++] = it;
    g->ok = k == nfns;
    VP_END;
  } else {
    vp_err_armed = 0; alarm (0);
    char fp[96]; snprintf (fp, sizeof fp, "engine-setup-error:%s:%s", opname, engname[e]);
    vp_viol (fp, "case=%ld scanning/linking the module for %s on %s raised %s (%s)", cur_case, opname, engname[e], vp_err_name (vp_err_type), vp_err_msg);
  }
  return g->ok;
}
static void call_fn (int e, int k, uint8_t *cell) {
  if (e == 0) { MIR_val_t v; v.a = cell; MIR_interp_arr (eng[0].ctx, eng[0].items[k], NULL, 1, &v); }
  else ((void (*) (void *)) eng[e].items[k]->addr) (cell);
}

static int isnan_k (int k, const void *p) {
  if (k == 0) { float f; memcpy (&f, p, 4); return isnan (f); }
  if (k == 1) { double d; memcpy (&d, p, 8); return isnan (d); }
  long double l = 0; memcpy (&l, p, 10); return isnan (l);
}
static void put_fp (int k, uint8_t *dst, int idx) {
  if (k == 0) memcpy (dst, &fvals[idx], 4); else if (k == 1) memcpy (dst, &dvals[idx], 8); else { memset (dst, 0, 16); memcpy (dst, &ldvals[idx], 10); }
}
static rv_t get_fp (int k, const uint8_t *src) { rv_t r; memset (&r, 0, sizeof r); if (k == 0) memcpy (&r.f, src, 4); else if (k == 1) memcpy (&r.d, src, 8); else memcpy (&r.ld, src, 10); return r; }
static long double as_ld (int k, rv_t v) { return k == 0 ? v.f : k == 1 ? v.d : v.ld; }
static int fpkind (MIR_type_t t) { return t == MIR_T_F ? 0 : t == MIR_T_D ? 1 : 2; }

static void report (int e, const fn_t *f, const char *what, const uint8_t *in, const uint8_t *got, const uint8_t *exp, size_t off, size_t n) {
  char fp[128], hi[3 * CELL + 8] = "", hg[64] = "", he[64] = "";
  int eclass = e <= 1 ? 0 : 1;
  snprintf (fp, sizeof fp, "wrong-result:%s:%s:%s", opname, eclass ? "gen" : "interp", what);
  for (int i = 0; i < 48; i++) sprintf (hi + 2 * i, "%02x", in[i]);
  for (size_t i = 0; i < n && i < 16; i++) { sprintf (hg + 2 * i, "%02x", got[off + i]); sprintf (he + 2 * i, "%02x", exp[off + i]); }
  vp_viol (fp, "case=%ld %s form [%s] on %s: bytes %zu..%zu of the cell are %s, reference semantics give %s\ninput cell (r|a|b): %s", cur_case, opname, f->form, engname[e], off, off + n, hg, he, hi);
}

/* run function k over the value grid on all engines */
static void eval_fn (int k) {
  const fn_t *f = &fns[k];
  int is_fp_in = f->ta == MIR_T_F || f->ta == MIR_T_D || f->ta == MIR_T_LD;
  int ka = is_fp_in ? fpkind (f->ta) : 'i';
  int na = is_fp_in ? nfv : NIV, nb = na;
  int unary = shape == SH_I2 || shape == SH_IBR1 || shape == SH_F2 || shape == SH_CONV;
  for (int ia = 0; ia < na; ia++) {
    if (f->imm_a >= 0 && ia != f->imm_a) continue;
    for (int ib = 0; ib < nb; ib++) {
      if (unary && ib > 0) break;
      if (f->imm_b >= 0 && ib != f->imm_b) continue;
      if (f->same && ib != ia) continue;
      uint8_t in[CELL], exp[CELL];
      memset (in, 0xA5, CELL);
      if (is_fp_in) { put_fp (ka, in + OFF_A, ia); put_fp (ka, in + OFF_B, ib); }
      else { memcpy (in + OFF_A, &ivals[ia], 8); memcpy (in + OFF_B, &ivals[ib], 8); }
      memcpy (exp, in, CELL);
      /* ---- reference result */
      size_t cmp_off = OFF_R, cmp_len = 8; int defined = SEM_OK, flag = -1;
      if (!is_fp_in) {
        int64_t a = f->imm_a >= 0 ? ivals[f->imm_a] : sem_load_int (f->ta, in + OFF_A);
        int64_t b = f->imm_b >= 0 ? ivals[f->imm_b] : f->same ? a : sem_load_int (f->tb, in + OFF_B), r = 0;
        if (shape == SH_I3) defined = sem_int3 (opcode, a, b, &r, NULL, NULL);
        else if (shape == SH_I2) defined = sem_int2 (opcode, a, &r);
        else if (shape == SH_IBR2 || shape == SH_IBR1) { int t = 0; defined = sem_ibranch (opcode, a, b, &t); r = t; }
        else if (shape == SH_OVF) { int so = 0, uo = 0; defined = sem_int3 (opcode, a, b, &r, &so, &uo); flag = f->flag_kind == 0 ? so : f->flag_kind == 1 ? !so : f->flag_kind == 2 ? uo : !uo; }
        else if (shape == SH_CONV) {
          rv_t av, rv; int sk, dk; av.i = a; defined = sem_conv (opcode, av, &rv, &sk, &dk);
          if (defined == SEM_OK) { if (dk == 0) memcpy (exp + OFF_R, &rv.f, 4); else if (dk == 1) memcpy (exp + OFF_R, &rv.d, 8); else memcpy (exp + OFF_R, &rv.ld, 10); cmp_len = dk == 0 ? 4 : dk == 1 ? 8 : 10; }
        }
        if (shape != SH_CONV && defined == SEM_OK) {
          size_t ts = sem_type_size (f->tr);
          memcpy (exp + OFF_R, &r, ts);
          cmp_len = ts;
          if ((shape == SH_I3 || shape == SH_I2 || shape == SH_OVF) && sem_is32 (opcode) && ts > 4) cmp_len = 4; /* upper half of a 32-bit result is undefined */
          if (flag >= 0) { int64_t fv = flag; memcpy (exp + OFF_F, &fv, 8); }
        }
      } else {
        rv_t a = f->imm_a >= 0 ? get_fp (ka, (uint8_t *) (ka == 0 ? (void *) &fvals[f->imm_a] : ka == 1 ? (void *) &dvals[f->imm_a] : (void *) &ldvals[f->imm_a])) : get_fp (ka, in + OFF_A);
        rv_t b = f->imm_b >= 0 ? get_fp (ka, (uint8_t *) (ka == 0 ? (void *) &fvals[f->imm_b] : ka == 1 ? (void *) &dvals[f->imm_b] : (void *) &ldvals[f->imm_b])) : f->same ? a : get_fp (ka, in + OFF_B);
        if (shape == SH_F3 || shape == SH_F2) {
          int k2, op; sem_fp_arith_code (opcode, &k2, &op);
          rv_t r = sem_farith (k2, op, a, b);
          if (k2 == 0) memcpy (exp + OFF_R, &r.f, 4); else if (k2 == 1) memcpy (exp + OFF_R, &r.d, 8); else memcpy (exp + OFF_R, &r.ld, 10);
          cmp_len = k2 == 0 ? 4 : k2 == 1 ? 8 : 10;
        } else if (shape == SH_FCMP || shape == SH_FBR) {
          int k2, rel, br; sem_fp_rel (opcode, &k2, &rel, &br);
          int64_t r = sem_fcmp (rel, as_ld (k2, a), as_ld (k2, b));
          size_t ts = sem_type_size (f->tr); memcpy (exp + OFF_R, &r, ts); cmp_len = ts;
        } else { /* conversion from FP */
          rv_t rv; int sk, dk; defined = sem_conv (opcode, a, &rv, &sk, &dk);
          if (defined == SEM_OK) {
            if (dk == 'i') { size_t ts = sem_type_size (f->tr); memcpy (exp + OFF_R, &rv.i, ts); cmp_len = ts; }
            else { if (dk == 0) memcpy (exp + OFF_R, &rv.f, 4); else if (dk == 1) memcpy (exp + OFF_R, &rv.d, 8); else memcpy (exp + OFF_R, &rv.ld, 10); cmp_len = dk == 0 ? 4 : dk == 1 ? 8 : 10; }
          }
        }
      }
      if (defined != SEM_OK) { n_undef_skipped++; continue; }
      int res_fp = (shape == SH_F3 || shape == SH_F2) ? fpkind (f->tr) : (shape == SH_CONV && (f->tr == MIR_T_F || f->tr == MIR_T_D || f->tr == MIR_T_LD)) ? fpkind (f->tr) : -1;
      /* ---- engines */
      for (int e = 0; e < NENG; e++) {
        if (!eng[e].ok) continue;
        uint8_t cell[CELL];
        memcpy (cell, in, CELL);
        if (VP_TRY) { call_fn (e, k, cell); VP_END; }
        else { vp_err_armed = 0; char fp[96]; snprintf (fp, sizeof fp, "run-error:%s:%s", opname, engname[e]); vp_viol (fp, "case=%ld running %s form [%s] raised %s", cur_case, opname, f->form, vp_err_msg); continue; }
        n_evals++;
        int bad = 0;
        if (res_fp >= 0 && isnan_k (res_fp, exp + OFF_R)) bad = !isnan_k (res_fp, cell + OFF_R); /* all NaNs are one class */
        else bad = memcmp (cell + cmp_off, exp + cmp_off, cmp_len) != 0;
        if (bad) { report (e, f, "value", in, cell, exp, cmp_off, cmp_len); return; }
        if (flag >= 0 && memcmp (cell + OFF_F, exp + OFF_F, 8) != 0) { report (e, f, "overflow-flag", in, cell, exp, OFF_F, 8); return; }
        /* nothing else in the cell may change: bytes after the result (narrow stores must not clobber), inputs, tail */
        size_t defined_end = OFF_R + (cmp_len < sem_type_size (f->tr) ? sem_type_size (f->tr) : cmp_len);
        if (f->tr == MIR_T_LD && res_fp == 2) defined_end = OFF_R + 16; /* padding bytes of a stored long double are not specified */
        if (memcmp (cell + defined_end, in + defined_end, OFF_F - defined_end) != 0) { report (e, f, "clobbered-neighbour", in, cell, in, defined_end, OFF_F - defined_end > 16 ? 16 : OFF_F - defined_end); return; }
        if (flag < 0 && memcmp (cell + OFF_F, in + OFF_F, CELL - OFF_F) != 0) { report (e, f, "clobbered-tail", in, cell, in, OFF_F, 16); return; }
      }
    }
  }
}

static void run_opcode (int oi) {
  const oc_t *oc = &opcodes[oi];
  static char lname[32];
  lower (lname, oc->n); opname = lname; opcode = oc->c; shape = oc->s;
  nfns = 0; tlen = 0;
  T ("m: module\n");
  switch (shape) {
  case SH_I3: gen_int3 (); break;
  case SH_I2: gen_int2 (); break;
  case SH_IBR2: gen_ibr (1); break;
  case SH_IBR1: gen_ibr (0); break;
  case SH_OVF: gen_ovf (); break;
  case SH_F3: { int k, op; sem_fp_arith_code (opcode, &k, &op); gen_f3 (k, 0); break; }
  case SH_F2: { int k, op; sem_fp_arith_code (opcode, &k, &op); gen_f3 (k, 1); break; }
  case SH_FCMP: case SH_FBR: { int k, rel, br; sem_fp_rel (opcode, &k, &rel, &br); gen_fcmp (k, br); break; }
  case SH_CONV: { rv_t a, r; int sk, dk; memset (&a, 0, sizeof a); sem_conv (opcode, a, &r, &sk, &dk); gen_conv (sk, dk); break; }
  }
  T ("endmodule\n");
  n_funcs += nfns;
  for (int e = 0; e < NENG; e++) setup_engine (e);
  for (int k = 0; k < nfns; k++) eval_fn (k);
  for (int e = 0; e < NENG; e++) if (eng[e].ok && e >= 2) { if (VP_TRY) { MIR_gen_finish (eng[e].ctx); VP_END; } vp_err_armed = 0; }
}

int main (int argc, char **argv) {
  vp_args_t a = vp_parse_args (argc, argv);
  init_fvals ();
  for (int i = 1; i < argc; i++) if (!strcmp (argv[i], "--query")) { printf ("TOTAL %d\n", NOPC); return 0; }
  vp_watch_fp = "engine-hang";
  long done = 0;
  for (long c = a.start; c < a.start + a.count && c < NOPC; c++) {
    cur_case = c; vp_case_begin (c);
    run_opcode ((int) c);
    vp_dist (vp_hash_mix ((uint64_t) c, 0xc02));
    done++;
    if (a.verbose && a.count == 1) printf ("NOTE module text:\n%.6000s\n", text);
  }
  if (a.start == 0) vp_sample ("opcode %s: %d functions, e.g.\n%.1200s", opname, nfns, text);
  printf ("EV cases %ld\nEV functions %ld\nEV evaluations %ld\nEV undefined_pairs_skipped %ld\n", done, n_funcs, n_evals, n_undef_skipped);
  return 0;
}
