"""C09: c2mir's preprocessor expands macros and evaluates #if as a conforming C11 preprocessor does (differential: c2m -E vs gcc -E -P)."""
import os
import random
import re
import subprocess
import tempfile
from concurrent.futures import ThreadPoolExecutor
from vlib import build, common

RULE = ("one case = one generated translation unit: 4-10 macro definitions (object-like and function-like with 0-3 parameters and/or __VA_ARGS__, "
        "bodies using parameters, #param, a ## b on identifier/number fragments, calls of earlier and of later (mutually recursive, self "
        "referential) macros, function-like names without arguments), then 6-14 invocation lines (nested calls, empty arguments, parenthesised "
        "commas, names whose arguments come from the following text, stringification of expansions) and 4-8 #if/#elif/#else groups over random "
        "(u)intmax_t expressions (all operators, suffixes u/l/ll, character constants, defined, ?:, shifts within range, no division by zero). "
        "Oracle: gcc -E -P on the same text; both outputs are cut at a marker line and compared as token strings (all white space removed, "
        "so only token content and order count). c2m is the ASan/UBSan/assert build. distinct = "
        "distinct (definition shapes) hashes")

IDS = ["a", "b", "c", "x", "y", "foo", "bar", "n1", "n2", "p_q"]
NUMS = ["0", "1", "2", "7", "10", "42", "0x1f", "100u", "3L"]
PUNCT = ["+", "-", "*", "/", "%", "<", ">", "<=", ">=", "==", "!=", "&", "|", "^", "&&", "||", "!", "~", "?", ":", ";", "=", "[", "]", "{", "}", ".", "->", "<<", ">>", "+=", "++", "--"]


class Gen:
    def __init__(self, rng):
        self.r = rng
        self.macros = []  # (name, kind, params, variadic)
        self.pasted = {}
        self.cur_pasted = set()
        self.allnames = []

    def tok(self, params, depth=0):
        r = self.r
        k = r.random()
        if params and k < 0.35:
            return r.choice(params)
        if k < 0.5:
            return r.choice(IDS)
        if k < 0.62:
            return r.choice(NUMS)
        if k < 0.80:
            return r.choice(PUNCT)
        if k < 0.90 and depth < 2:
            return "(" + self.seq(params, r.randint(0, 3), depth + 1) + ")"
        if self.allnames and depth < 3:
            return self.call(r.choice(self.allnames), params, depth + 1)
        return r.choice(IDS)

    def seq(self, params, n, depth=0):
        return " ".join(self.tok(params, depth) for _ in range(n))

    def arg(self, params, depth):
        r = self.r
        k = r.random()
        if k < 0.12:
            return ""  # empty argument
        if k < 0.22:
            return "(" + self.seq(params, 2, depth + 1) + ", " + self.seq(params, 1, depth + 1) + ")"  # a comma protected by parentheses
        return self.seq(params, r.randint(1, 3), depth + 1)

    def call(self, m, params, depth):
        name, kind, mp, var = m
        r = self.r
        if kind == "obj":
            return name
        if r.random() < 0.08:
            return name  # function-like name without arguments: not an invocation
        n = len(mp)
        args = [self.arg(params, depth) for _ in range(n)]
        for k in self.pasted.get(name, ()):  # a parameter that is an operand of ## gets one identifier/number-ish token, or nothing
            args[k] = r.choice(["", "a", "b", "x", "n1", "7"])
        if var:
            args += [self.arg(params, depth) for _ in range(r.randint(1, 2))]  # C11: at least one argument for the ellipsis
        if n == 0 and not var:
            return name + " ()"
        if n == 1 and not args:
            args = [""]
        return name + (" " if r.random() < 0.3 else "") + "(" + ", ".join(args) + ")"

    def body(self, params, var, later):
        r = self.r
        parts = []
        n = r.randint(1, 6)
        allp = params + (["__VA_ARGS__"] if var else [])
        for _ in range(n):
            k = r.random()
            if allp and k < 0.15 and params:
                parts.append("#" + r.choice(params))
            elif k < 0.30:
                # paste two fragments that always form one valid token: identifier##identifier/number, number##number
                left = r.choice(params + IDS[:4])
                right = r.choice(params + IDS[:4] + ["1", "2", "_z"])
                for q in (left, right):
                    if q in params:
                        self.cur_pasted.add(params.index(q))
                parts.append(left + " ## " + right)
            elif k < 0.45 and later and r.random() < 0.5:
                parts.append(r.choice(later))  # a name defined later (or the macro itself): painted blue when recursive
            else:
                parts.append(self.tok(allp, 1))
        self.cur_tail = None
        fn = [m for m in self.allnames if m[1] == "fun" and not self.pasted.get(m[0])]
        if fn and r.random() < 0.15:
            # the replacement list ends with the name of a function-like macro (and maybe a parameter that can be empty): the invocation is
            # completed by the tokens that follow the enclosing macro's expansion (C11 6.10.3.4p1)
            self.cur_tail = r.choice(fn)
            parts.append(self.cur_tail[0])
            if params and r.random() < 0.5:
                parts.append(r.choice(params))
        return " ".join(parts)

    def program(self):
        r = self.r
        nm = r.randint(4, 10)
        names = ["M%d" % i for i in range(nm)]
        lines = []
        self.allnames = []
        self.tail = {}
        shapes = []
        for i, name in enumerate(names):
            kind = "obj" if r.random() < 0.3 else "fun"
            params = []
            var = False
            if kind == "fun":
                params = ["p%d" % k for k in range(r.randint(0, 3))]
                var = r.random() < 0.25
            later = names[i:] if r.random() < 0.5 else []
            self.cur_pasted = set()
            b = self.body(params, var, later)
            self.pasted[name] = sorted(self.cur_pasted)
            if self.cur_tail is not None:
                self.tail[name] = self.cur_tail
            # paste operands that are parameters may be empty or multi-token: keep them identifier-ish by construction of the calls below
            if kind == "obj":
                lines.append("#define %s %s" % (name, b))
            else:
                lines.append("#define %s(%s) %s" % (name, ", ".join(params + (["..."] if var else [])), b))
            self.allnames.append((name, kind, params, var))
            shapes.append((kind, len(params), var, "##" in b, "#p" in b))
        lines.append("#define STR2(x) #x")
        lines.append("#define STR(x) STR2(x)")
        lines.append("int vp_marker_begin;")
        for i in range(r.randint(6, 14)):
            m = r.choice(self.allnames)
            inv = self.call(m, [], 0)
            k = r.random()
            if k < 0.25:
                lines.append("const char *s%d = STR(%s);" % (i, inv))
            elif k < 0.35:
                lines.append("%s %s" % (m[0], "(" + ", ".join(["1"] * (len(m[2]) + (1 if m[3] else 0))) + ")"))  # arguments taken from the text that follows
            elif m[0] in self.tail and r.random() < 0.6:
                t = self.tail[m[0]]
                lines.append("%s (%s) ;" % (inv, ", ".join(["1"] * (len(t[2]) + (1 if t[3] else 0)))))  # arguments for the macro name that ends the expansion
            else:
                lines.append("%s ;" % inv)
            if r.random() < 0.1:
                lines.append("#undef %s" % r.choice(names))
        for i in range(r.randint(4, 8)):
            lines.append("#if %s" % self.ifexpr(0))
            lines.append("int r%d = 1;" % i)
            if r.random() < 0.4:
                lines.append("#elif %s" % self.ifexpr(0))
                lines.append("int r%d = 2;" % i)
            lines.append("#else")
            lines.append("int r%d = 0;" % i)
            lines.append("#endif")
        return "\n".join(lines) + "\n", hash(tuple(shapes)) & 0xffffffffffff

    def ifnum(self):
        r = self.r
        v = r.choice([0, 1, 2, 3, 7, 31, 63, 64, 255, 256, 65535, 0x7fffffff, 0x80000000, 0xffffffff, 0x100000000, 0x7fffffffffffffff, 0x8000000000000000,
                      0xffffffffffffffff, r.getrandbits(16), r.getrandbits(33), r.getrandbits(63)])
        form = r.random()
        s = ("0x%x" % v) if form < 0.4 else ("%d" % v) if form < 0.9 or v == 0 else ("0%o" % v)
        if v > 0x7fffffffffffffff and not s.startswith("0"):
            s += "u"  # a decimal constant that does not fit intmax_t has no type: keep the program valid
        if r.random() < 0.25:
            s += r.choice(["u", "U", "l", "L", "ul", "ll", "ull", "LLU"]) if not s.endswith("u") else r.choice(["", "l", "ll"])
        return s

    def ifexpr(self, d):
        r = self.r
        k = r.random()
        if d > 3 or k < 0.25:
            c = r.random()
            if c < 0.8:
                return self.ifnum()
            if c < 0.9:
                return r.choice(["'a'", "'\\0'", "'\\n'", "'z'"])
            return r.choice(["defined(M0)", "defined M1", "defined(NOPE)", "!defined(STR)", "UNDEFINED_ID"])
        if k < 0.35:
            return r.choice(["-", "+", "~", "!"]) + "(" + self.ifexpr(d + 1) + ")"
        if k < 0.45:
            return "(%s ? %s : %s)" % (self.ifexpr(d + 1), self.ifexpr(d + 1), self.ifexpr(d + 1))
        if k < 0.55:
            return "(%s %s %d)" % (self.ifexpr(d + 1), r.choice(["<<", ">>"]), r.randint(0, 63))
        if k < 0.62:
            return "(%s %s (%s | 1))" % (self.ifexpr(d + 1), r.choice(["/", "%"]), self.ifexpr(d + 1))  # divisor never zero (| 1), INT_MIN/-1 avoided below
        op = r.choice(["+", "-", "*", "&", "|", "^", "<", ">", "<=", ">=", "==", "!=", "&&", "||"])
        return "(%s %s %s)" % (self.ifexpr(d + 1), op, self.ifexpr(d + 1))


def strip_ws(text):
    """token string: all white space removed.  The only string literals in generated sources come from stringification of macro
    arguments that were themselves expanded; whether white space separates tokens that meet through an expansion is not fixed by the
    standard (gcc and clang differ too), so spacing inside those strings is not compared either."""
    return re.sub(r"\s+", "", text)


def strip_ws_outside_literals(text):
    out = []
    i = 0
    n = len(text)
    while i < n:
        c = text[i]
        if c in "\"'":
            j = i + 1
            while j < n and text[j] != c:
                j += 2 if text[j] == "\\" else 1
            out.append(text[i:j + 1])
            i = j + 1
        elif c.isspace():
            i += 1
        else:
            out.append(c)
            i += 1
    return "".join(out)


def after_marker(text):
    k = text.find("vp_marker_begin")
    if k < 0:
        return None
    t = text[k:]
    return "\n".join(l for l in t.splitlines() if not l.startswith("#"))


def classify(src, a, b):
    """coarse fingerprint of a difference: #if group selection vs macro expansion"""
    ra = dict(re.findall(r"intr(\d+)=(\d);", a))
    rb = dict(re.findall(r"intr(\d+)=(\d);", b))
    if ra != rb:
        return "if-group-selection-differs"
    return "macro-expansion-differs"


def one_case(args):
    c2m, seed, idx, tmp = args
    rng = random.Random((seed << 32) ^ idx)
    g = Gen(rng)
    src, shape = g.program()
    # shifts of negative values, signed overflow and INT_MIN / -1 are undefined in #if as elsewhere: gcc warns ("integer overflow in preprocessor
    # expression"); such cases are dropped, not judged
    path = os.path.join(tmp, "c%d.c" % idx)
    with open(path, "w") as f:
        f.write(src)
    env = dict(os.environ, ASAN_OPTIONS="detect_leaks=0:abort_on_error=1")
    try:
        rg = subprocess.run(["gcc", "-E", "-P", "-std=c11", "-Wall", "-pedantic", path], stdout=subprocess.PIPE, stderr=subprocess.PIPE, text=True, errors="replace", timeout=60)
        if rg.returncode != 0:
            return ("discard", "reference-preprocessor-rejects", shape, None)
        # undefined or non-portable input is not judged; "changes sign when promoted" is only a hint and exactly what is to be compared
        if re.search(r"integer overflow|division by zero|does not give a valid|requires at least one|shift count|is not valid|invalid", rg.stderr):
            return ("discard", "reference-preprocessor-warns-undefined", shape, None)
        rc = subprocess.run([c2m, "-E", path], stdout=subprocess.PIPE, stderr=subprocess.PIPE, text=True, errors="replace", timeout=60, env=env)
    except subprocess.TimeoutExpired:
        return ("viol", "preprocessor-hang", shape, "case %d: c2m -E did not finish in 60 s\n%s" % (idx, src))
    finally:
        try:
            os.unlink(path)
        except OSError:
            pass
    if rc.returncode != 0:
        summ = common.san_summary(rc.stderr)
        msg = re.sub(r"c\d+\.c", "cN.c", (rc.stderr.strip().splitlines() or ["?"])[0])
        m2 = re.search(r":\d+:\d+: (.*)", msg)
        text = re.sub(r"\"[^\"]*\"\S*|\b[A-Za-z]\w*\d\w*\b|\d+", "", (m2.group(1) if m2 else msg)).strip(" :")
        kind = ("c2m-crash:%s" % summ) if summ or rc.returncode < 0 else "c2m-rejects-valid-source:" + re.sub(r"[^A-Za-z#]+", "-", text).strip("-")[:50]
        return ("viol", kind, shape, "case %d: c2m -E exit %d\n%s\n--- source\n%s" % (idx, rc.returncode, rc.stderr[-1500:], src))
    a, b = after_marker(rc.stdout), after_marker(rg.stdout)
    if a is None or b is None:
        return ("viol", "marker-missing-in-output", shape, "case %d\n%s" % (idx, src))
    sa, sb = strip_ws(a), strip_ws(b)
    if sa == sb:
        return ("ok", None, shape, len(sb))
    k = 0
    while k < min(len(sa), len(sb)) and sa[k] == sb[k]:
        k += 1
    return ("viol", classify(src, sa, sb), shape,
            "case %d (seed %d): outputs differ at token-string offset %d\n c2m: ...%s\n gcc: ...%s\n--- source\n%s" % (idx, seed, k, sa[max(0, k - 60):k + 80], sb[max(0, k - 60):k + 80], src))


def run(tier):
    res = common.Result("C09")
    th = tier == "thorough"
    seed = int(common.seed())
    c2m = os.path.join(build.build_lib("asan"), "c2m")
    n = 30000 if th else 1500
    tmp = tempfile.mkdtemp(prefix="vp-c09-")
    tokens = 0
    try:
        with ThreadPoolExecutor(max_workers=common.NCPU) as ex:
            for kind, fp, shape, detail in ex.map(one_case, [(c2m, seed, i, tmp) for i in range(n)]):
                res.counters["cases"] = res.counters.get("cases", 0) + 1
                if kind == "discard":
                    res.discarded[fp] = res.discarded.get(fp, 0) + 1
                    continue
                res.distinct.add(shape)
                res.counters["translation_units_compared"] = res.counters.get("translation_units_compared", 0) + 1
                if kind == "ok":
                    tokens += detail
                else:
                    res.add_viol(fp, detail, cmd="./run C09 --tier %s --seed %d" % (tier, seed))
    finally:
        try:
            os.rmdir(tmp)
        except OSError:
            pass
    res.counters["token_string_bytes_equal"] = tokens
    return common.finish(
        res, tier, RULE,
        assumptions=["gcc -E -P -std=c11 is the conforming reference; translation units on which it warns (overflow or negative shift in #if, "
                     "invalid paste) are discarded, not judged",
                     "comparison ignores white space between tokens, so a difference in spacing that would re-tokenise differently is not seen"],
        evaluations=res.counters.get("translation_units_compared", 0),
        floor={"translation_units_compared": 500})


def replay(path):
    print(open(path).read())
    return 0
