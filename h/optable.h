/* Opcode/operand-class table transcribed from MIR.md (DESIGN.md appendix A): shared by the C15 acceptance sweep and by the
   module generator (which uses it to build *valid* instructions over the whole operand vocabulary). Independent of insn_descs. */
#ifndef VP_OPTABLE_H
#define VP_OPTABLE_H
#include "mir.h"
enum cls { C_NONE, C_iO, C_iI, C_fO, C_fI, C_dO, C_dI, C_ldO, C_ldI, C_LAB, C_VAR, C_VA, C_ANYMEM, C_PROPV, C_IIMM };
static const char *cls_name[] = {"-", "iO", "iI", "fO", "fI", "dO", "dI", "ldO", "ldI", "lab", "var", "va_list", "anymem", "propvar", "intimm"};

typedef struct { MIR_insn_code_t code; const char *name; int nops; enum cls c[4]; int flags; } opdesc_t;
#define F_OVF_BRANCH 1  /* needs a preceding overflow insn */
#define F_VARARG 2      /* only in vararg functions */
#define F_NORES 4       /* function must have no results (jret) */
#define F_PROP 8

#define I2(n) {MIR_##n, #n, 2, {C_iO, C_iI}, 0}
#define I3(n) {MIR_##n, #n, 3, {C_iO, C_iI, C_iI}, 0}
#define CB(n) {MIR_##n, #n, 3, {C_LAB, C_iI, C_iI}, 0}
#define X2(n, a, b) {MIR_##n, #n, 2, {a, b}, 0}
#define X3(n, a, b, c) {MIR_##n, #n, 3, {a, b, c}, 0}
static const opdesc_t ops[] = {
  I2 (MOV), X2 (FMOV, C_fO, C_fI), X2 (DMOV, C_dO, C_dI), X2 (LDMOV, C_ldO, C_ldI),
  I2 (EXT8), I2 (EXT16), I2 (EXT32), I2 (UEXT8), I2 (UEXT16), I2 (UEXT32), I2 (NEG), I2 (NEGS),
  X2 (I2F, C_fO, C_iI), X2 (UI2F, C_fO, C_iI), X2 (I2D, C_dO, C_iI), X2 (UI2D, C_dO, C_iI), X2 (I2LD, C_ldO, C_iI), X2 (UI2LD, C_ldO, C_iI),
  X2 (F2I, C_iO, C_fI), X2 (D2I, C_iO, C_dI), X2 (LD2I, C_iO, C_ldI),
  X2 (F2D, C_dO, C_fI), X2 (F2LD, C_ldO, C_fI), X2 (D2F, C_fO, C_dI), X2 (D2LD, C_ldO, C_dI), X2 (LD2F, C_fO, C_ldI), X2 (LD2D, C_dO, C_ldI),
  X2 (FNEG, C_fO, C_fI), X2 (DNEG, C_dO, C_dI), X2 (LDNEG, C_ldO, C_ldI),
  X2 (ADDR, C_iO, C_VAR), X2 (ADDR8, C_iO, C_VAR), X2 (ADDR16, C_iO, C_VAR), X2 (ADDR32, C_iO, C_VAR),
  I3 (ADD), I3 (ADDS), I3 (SUB), I3 (SUBS), I3 (MUL), I3 (MULS), I3 (DIV), I3 (DIVS), I3 (UDIV), I3 (UDIVS), I3 (MOD), I3 (MODS), I3 (UMOD), I3 (UMODS),
  I3 (AND), I3 (ANDS), I3 (OR), I3 (ORS), I3 (XOR), I3 (XORS), I3 (LSH), I3 (LSHS), I3 (RSH), I3 (RSHS), I3 (URSH), I3 (URSHS),
  I3 (EQ), I3 (EQS), I3 (NE), I3 (NES), I3 (LT), I3 (LTS), I3 (ULT), I3 (ULTS), I3 (LE), I3 (LES), I3 (ULE), I3 (ULES),
  I3 (GT), I3 (GTS), I3 (UGT), I3 (UGTS), I3 (GE), I3 (GES), I3 (UGE), I3 (UGES),
  I3 (ADDO), I3 (ADDOS), I3 (SUBO), I3 (SUBOS), I3 (MULO), I3 (MULOS), I3 (UMULO), I3 (UMULOS),
  X3 (FADD, C_fO, C_fI, C_fI), X3 (FSUB, C_fO, C_fI, C_fI), X3 (FMUL, C_fO, C_fI, C_fI), X3 (FDIV, C_fO, C_fI, C_fI),
  X3 (DADD, C_dO, C_dI, C_dI), X3 (DSUB, C_dO, C_dI, C_dI), X3 (DMUL, C_dO, C_dI, C_dI), X3 (DDIV, C_dO, C_dI, C_dI),
  X3 (LDADD, C_ldO, C_ldI, C_ldI), X3 (LDSUB, C_ldO, C_ldI, C_ldI), X3 (LDMUL, C_ldO, C_ldI, C_ldI), X3 (LDDIV, C_ldO, C_ldI, C_ldI),
  X3 (FEQ, C_iO, C_fI, C_fI), X3 (FNE, C_iO, C_fI, C_fI), X3 (FLT, C_iO, C_fI, C_fI), X3 (FLE, C_iO, C_fI, C_fI), X3 (FGT, C_iO, C_fI, C_fI), X3 (FGE, C_iO, C_fI, C_fI),
  X3 (DEQ, C_iO, C_dI, C_dI), X3 (DNE, C_iO, C_dI, C_dI), X3 (DLT, C_iO, C_dI, C_dI), X3 (DLE, C_iO, C_dI, C_dI), X3 (DGT, C_iO, C_dI, C_dI), X3 (DGE, C_iO, C_dI, C_dI),
  X3 (LDEQ, C_iO, C_ldI, C_ldI), X3 (LDNE, C_iO, C_ldI, C_ldI), X3 (LDLT, C_iO, C_ldI, C_ldI), X3 (LDLE, C_iO, C_ldI, C_ldI), X3 (LDGT, C_iO, C_ldI, C_ldI), X3 (LDGE, C_iO, C_ldI, C_ldI),
  {MIR_JMP, "JMP", 1, {C_LAB}, 0},
  X2 (BT, C_LAB, C_iI), X2 (BTS, C_LAB, C_iI), X2 (BF, C_LAB, C_iI), X2 (BFS, C_LAB, C_iI),
  CB (BEQ), CB (BEQS), CB (BNE), CB (BNES), CB (BLT), CB (BLTS), CB (UBLT), CB (UBLTS), CB (BLE), CB (BLES), CB (UBLE), CB (UBLES),
  CB (BGT), CB (BGTS), CB (UBGT), CB (UBGTS), CB (BGE), CB (BGES), CB (UBGE), CB (UBGES),
  X3 (FBEQ, C_LAB, C_fI, C_fI), X3 (FBNE, C_LAB, C_fI, C_fI), X3 (FBLT, C_LAB, C_fI, C_fI), X3 (FBLE, C_LAB, C_fI, C_fI), X3 (FBGT, C_LAB, C_fI, C_fI), X3 (FBGE, C_LAB, C_fI, C_fI),
  X3 (DBEQ, C_LAB, C_dI, C_dI), X3 (DBNE, C_LAB, C_dI, C_dI), X3 (DBLT, C_LAB, C_dI, C_dI), X3 (DBLE, C_LAB, C_dI, C_dI), X3 (DBGT, C_LAB, C_dI, C_dI), X3 (DBGE, C_LAB, C_dI, C_dI),
  X3 (LDBEQ, C_LAB, C_ldI, C_ldI), X3 (LDBNE, C_LAB, C_ldI, C_ldI), X3 (LDBLT, C_LAB, C_ldI, C_ldI), X3 (LDBLE, C_LAB, C_ldI, C_ldI), X3 (LDBGT, C_LAB, C_ldI, C_ldI), X3 (LDBGE, C_LAB, C_ldI, C_ldI),
  {MIR_BO, "BO", 1, {C_LAB}, F_OVF_BRANCH}, {MIR_UBO, "UBO", 1, {C_LAB}, F_OVF_BRANCH}, {MIR_BNO, "BNO", 1, {C_LAB}, F_OVF_BRANCH}, {MIR_UBNO, "UBNO", 1, {C_LAB}, F_OVF_BRANCH},
  X2 (LADDR, C_iO, C_LAB),
  {MIR_JMPI, "JMPI", 1, {C_iI}, 0},
  {MIR_JRET, "JRET", 1, {C_iI}, F_NORES},
  X2 (ALLOCA, C_iO, C_iI),
  {MIR_BSTART, "BSTART", 1, {C_iO}, 0}, {MIR_BEND, "BEND", 1, {C_iI}, 0},
  {MIR_VA_ARG, "VA_ARG", 3, {C_iO, C_VA, C_ANYMEM}, F_VARARG},
  {MIR_VA_BLOCK_ARG, "VA_BLOCK_ARG", 4, {C_iI, C_VA, C_iI, C_iI}, F_VARARG},
  {MIR_VA_START, "VA_START", 1, {C_VA}, F_VARARG}, {MIR_VA_END, "VA_END", 1, {C_VA}, F_VARARG},
  {MIR_PRSET, "PRSET", 2, {C_PROPV, C_IIMM}, F_PROP},
  {MIR_PRBEQ, "PRBEQ", 3, {C_LAB, C_PROPV, C_IIMM}, F_PROP}, {MIR_PRBNE, "PRBNE", 3, {C_LAB, C_PROPV, C_IIMM}, F_PROP},
};
#define NOPS ((int) (sizeof ops / sizeof ops[0]))

enum kind { K_Ri, K_Rf, K_Rd, K_Rld, K_Ii, K_Iu, K_If, K_Id, K_Ild,
            K_Mi8, K_Mu8, K_Mi16, K_Mu16, K_Mi32, K_Mu32, K_Mi64, K_Mu64, K_Mp, K_Mf, K_Md, K_Mld,
            K_Mblk0, K_Mblk1, K_Mblk2, K_Mblk3, K_Mblk4, K_Mrblk, K_Mundef,
            K_L, K_REFfunc, K_REFproto, K_REFdata, K_REFimport, K_STR,
            K_Mi64_idx, K_Mi64_fbase, K_Mi64_findex, K_Rundecl, K_Mi64_undeclbase, K_Md_idx, NKINDS };
static const char *kind_name[] = {"Ri", "Rf", "Rd", "Rld", "Ii", "Iu", "If", "Id", "Ild",
                                  "Mi8", "Mu8", "Mi16", "Mu16", "Mi32", "Mu32", "Mi64", "Mu64", "Mp", "Mf", "Md", "Mld",
                                  "Mblk0", "Mblk1", "Mblk2", "Mblk3", "Mblk4", "Mrblk", "Mundef",
                                  "L", "REFfunc", "REFproto", "REFdata", "REFimport", "STR",
                                  "Mi64(b,i,8)", "Mi64(fbase)", "Mi64(findex)", "Rundeclared", "Mi64(undeclared base)", "Md(b,i,4)"};

/* verdicts */
#define ACC 1
#define REJ 2
#define UNS 3
#define E(x) (1ull << MIR_##x##_error)
#define E_MODE (E (op_mode) | E (out_op))
#define E_TYPE (E (wrong_type) | E (op_mode) | E (out_op))

static int int_mem_kind (int k) { return (K_Mi8 <= k && k <= K_Mp) || k == K_Mi64_idx; }
static int mem_kind (int k) { return (K_Mi8 <= k && k <= K_Mundef) || (K_Mi64_idx <= k && k <= K_Md_idx && k != K_Rundecl); }

/* expectation for (class, kind): returns ACC/REJ/UNS, *errs = allowed error set when REJ */
static int expect (enum cls c, int k, uint64_t *errs) {
  *errs = 0;
  /* the 3rd operand of va_arg is only a type carrier ("the memory operand type defines the type of the argument");
     its address registers are never evaluated, so faults in them are observed, not judged */
  if (c == C_ANYMEM && (k == K_Mi64_fbase || k == K_Mi64_findex || k == K_Mi64_undeclbase)) return UNS;
  /* structural faults of the operand itself dominate (any of the applicable specific codes is fine) */
  if (k == K_Rundecl || k == K_Mi64_undeclbase) { *errs = E (undeclared_func_reg) | E_MODE; return REJ; }
  if (k == K_Mi64_fbase || k == K_Mi64_findex) { *errs = E (reg_type) | E_MODE; return REJ; }
  int blk = K_Mblk0 <= k && k <= K_Mrblk;
  switch (c) {
  case C_iO:
    if (k == K_Ri || int_mem_kind (k)) return ACC;
    *errs = blk || k == K_Mundef ? E_TYPE : E_MODE; return REJ;
  case C_iI:
    if (k == K_Ri || k == K_Ii || k == K_Iu || int_mem_kind (k)) return ACC;
    if (k == K_REFfunc || k == K_REFproto || k == K_REFdata || k == K_REFimport || k == K_STR) return UNS; /* "just an address": MIR.md silent */
    *errs = blk || k == K_Mundef ? E_TYPE : E_MODE; return REJ;
  case C_fO: if (k == K_Rf || k == K_Mf) return ACC; *errs = blk || k == K_Mundef ? E_TYPE : E_MODE; return REJ;
  case C_dO: if (k == K_Rd || k == K_Md || k == K_Md_idx) return ACC; *errs = blk || k == K_Mundef ? E_TYPE : E_MODE; return REJ;
  case C_ldO: if (k == K_Rld || k == K_Mld) return ACC; *errs = blk || k == K_Mundef ? E_TYPE : E_MODE; return REJ;
  case C_fI: if (k == K_Rf || k == K_Mf || k == K_If) return ACC; *errs = blk || k == K_Mundef ? E_TYPE : E_MODE; return REJ;
  case C_dI: if (k == K_Rd || k == K_Md || k == K_Md_idx || k == K_Id) return ACC; *errs = blk || k == K_Mundef ? E_TYPE : E_MODE; return REJ;
  case C_ldI: if (k == K_Rld || k == K_Mld || k == K_Ild) return ACC; *errs = blk || k == K_Mundef ? E_TYPE : E_MODE; return REJ;
  case C_LAB: if (k == K_L) return ACC; *errs = blk || k == K_Mundef ? E_TYPE : E_MODE; return REJ;
  case C_VAR: /* ADDR*: "a register"; which register types are meaningful for addr8/16/32 is not specified */
    if (k == K_Ri) return ACC;
    if (k == K_Rf || k == K_Rd || k == K_Rld) return UNS;
    *errs = blk || k == K_Mundef ? E_TYPE : E_MODE; return REJ;
  case C_VA: /* address of va_list: integer operand, or memory with undefined type (MIR.md VA section) */
    if (k == K_Ri || k == K_Mundef || int_mem_kind (k)) return ACC;
    if (k == K_Ii || k == K_Iu || k == K_REFfunc || k == K_REFproto || k == K_REFdata || k == K_REFimport || k == K_STR) return UNS;
    *errs = blk ? E_TYPE : E_MODE; return REJ;
  case C_ANYMEM: /* "any memory operand": type carrier */
    if (mem_kind (k) && !blk && k != K_Mundef) return ACC;
    if (blk || k == K_Mundef) return UNS;
    *errs = E_MODE; return REJ;
  case C_PROPV: /* "the variable": reg or memory of any ordinary type */
    if (k <= K_Rld) return ACC;
    if (mem_kind (k) && !blk && k != K_Mundef) return ACC;
    if (blk || k == K_Mundef) { *errs = E_TYPE; return REJ; }
    *errs = E_MODE; return REJ;
  case C_IIMM:
    if (k == K_Ii) return ACC;
    if (k == K_Iu) return UNS;
    *errs = E_TYPE; return REJ;
  default: return UNS;
  }
}
static int default_kind (enum cls c) {
  switch (c) {
  case C_iO: case C_iI: case C_VAR: case C_VA: case C_PROPV: return K_Ri;
  case C_fO: case C_fI: return K_Rf;
  case C_dO: case C_dI: return K_Rd;
  case C_ldO: case C_ldI: return K_Rld;
  case C_LAB: return K_L;
  case C_ANYMEM: return K_Mi64;
  case C_IIMM: return K_Ii;
  default: return K_Ri;
  }
}

#endif
