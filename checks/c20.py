"""C20: the C translation of a MIR module (mir2c) computes what interpreting the module computes."""
from vlib import build, common

RULE = ("one case = one generated single-module program whose functions have at most one result (integer 64/32-bit, float/double/long double "
        "code, narrow memory operands, a data section, calls, switch, laddr/jmpi dispatch, overflow insns + branches, allocas, loops, recursion, "
        "external calls): MIR_module2c translates it under a watchdog, gcc -O1 -fwrapv -fno-strict-aliasing must accept the translation unit, "
        "the compiled translation is loaded and its entry called on 6 input pairs; result, final buffer, the data section and the ordered "
        "external-call log must equal MIR_interp's on the same module (and the reference model's). A second sub-run takes every integer, "
        "compare-and-branch, overflow(+bo/bno/ubo/ubno) and int->fp opcode with parameters of every integer type pair read in place and compares "
        "translation and interpreter over a boundary grid. distinct = distinct program shapes")


def run(tier):
    res = common.Result("C20")
    th = tier == "thorough"
    seed = common.seed()
    exe = build.build_harness("c20", ["c20_mir2c.c", build.REPO + "/mir2c/mir2c.c"], "asan", extra=("-rdynamic",))
    common.run_sharded(res, exe, ["--seed", seed, "--extra", 0], 12000 if th else 700, env=common.ASAN_ENV, timeout=3000)
    # per-opcode sub-run: every integer/branch/overflow/int->fp opcode x every pair of parameter types, parameters read in place
    import re, subprocess
    out = subprocess.run([exe, "--mode", "insn", "--query"], stdout=subprocess.PIPE, text=True, env=dict(__import__("os").environ, **common.ASAN_ENV)).stdout
    n = int(re.search(r"TOTAL (\d+)", out).group(1))
    common.run_sharded(res, exe, ["--seed", seed, "--mode", "insn"], n, env=common.ASAN_ENV, timeout=3000, nshards=min(n, common.NCPU * 2))
    return common.finish(
        res, tier, RULE,
        assumptions=["gcc with -fwrapv -fno-strict-aliasing is the reference C compiler: wrap-around signed arithmetic and type punning in the emitted C "
                     "are not counted against the translator",
                     "label reference data items (lref) are never generated: mir2c has no C form for them (documented limitation, DESIGN.md)",
                     "programs are well-defined by construction (DESIGN.md 1.2)"],
        evaluations=res.counters.get("translation_runs", 0) + res.counters.get("insn_evaluations", 0),
        extra={"insn_sub_run": "opcode x parameter-type pair x 38-value boundary grid, complete enumeration of the opcode x type space"},
        floor={"insn_cases": 100, "insn_evaluations": 1000000, "programs": 100, "calls": 50, "loops": 50, "switches": 20, "overflow_branches": 20, "fp_stmts": 50, "narrow_types": 20})


def replay(path):
    print(open(path).read())
    return 0
