"""C13: import binding vs a sequential model of the global-name table (fast + asan builds)."""
import re
import subprocess
from vlib import build, common

RULE = ("exh = every sequence of LEN operations over a fixed 12-operation menu (load m0..m4, three external registrations, link without/with resolver, "
        "permission on/off) on a 5-module universe, plus a final link, once per execution interface (interp, gen, lazy, lazy-bb); rnd = random module versions (each of 5 names "
        "exported/private/imported/absent, three declaration orders, call/inline/call-via-register probes) and random histories of 3-15 "
        "operations. After every link each probe of every module linked at that step is executed and compared with the model. "
        "non-trivial = legal histories in which at least one *import* probe was executed and checked")


def run(tier):
    res = common.Result("C13")
    th = tier == "thorough"
    seed = common.seed()
    spaces = {}
    for cfg in ("fast", "asan"):
        exe = build.build_harness("c13", ["c13_link.c"], cfg)
        ln = (5 if th else 4) if cfg == "fast" else (4 if th else 3)
        out = subprocess.run([exe, "--mode", "exh", "--extra", str(ln), "--query"], stdout=subprocess.PIPE, text=True).stdout
        n_exh = int(re.search(r"TOTAL (\d+)", out).group(1))
        n_rnd = (400000 if th else 12000) if cfg == "fast" else (40000 if th else 1500)
        spaces[cfg] = {"exh_len": ln, "exh_histories": n_exh, "rnd_histories": n_rnd}
        for iface in range(4):
            common.run_sharded(res, exe, ["--seed", seed, "--mode", "exh", "--extra", ln, "--iface", iface], n_exh, env=common.ASAN_ENV, timeout=3000)
        common.run_sharded(res, exe, ["--seed", seed, "--mode", "rnd"], n_rnd, env=common.ASAN_ENV, timeout=3000)
    return common.finish(
        res, tier, RULE,
        assumptions=["the sequential table model in h/c13_link.c states the property: exports/externals overwrite in load order, imports read the table at link time, "
                     "own definitions bind locally, resolver only for absent names",
                     "a function export arriving after an *external* of the same name without permission is treated as unspecified (either outcome accepted)"],
        extra={"exhaustive": True, "spaces": spaces, "exhaustive_subspace": "exh mode only"},
        distinct=res.counters.get("nontrivial", 0),
        floor={"probes": 1000, "expected_errors_seen": 10, "resolver_bindings": 10, "permitted_redefinitions": 10})


def replay(path):
    print(open(path).read())
    return 0
