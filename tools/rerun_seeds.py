#!/usr/bin/env python3
"""Re-run every seeded change (seeded/<ID>-<A|B>/patch[.ported].diff) against the current /repo tree with the check that is recorded as
catching it, restore the tree after every run, and write seeded/rerun.json.  usage: tools/rerun_seeds.py [seed-dir-name ...]"""
import json, os, re, subprocess, sys, time
os.chdir("/verif")
OTHER = {"C01-B": "C06", "C07-B": "C08"}   # seeds caught by another property's check (see meta.json)
want = set(sys.argv[1:])
rows = []
if subprocess.run(["git", "-C", "/repo", "diff", "--quiet"]).returncode != 0:
    sys.exit("/repo working tree is dirty")
for name in sorted(os.listdir("seeded")):
    d = os.path.join("seeded", name)
    if not os.path.isdir(d) or (want and name not in want):
        continue
    cands = [p for p in ("patch.ported2.diff", "patch.ported.diff", "patch.diff") if os.path.exists(os.path.join(d, p))]
    prop = OTHER.get(name, name.split("-")[0])
    row = {"seed": name, "check": prop}
    applied = None
    for pf in cands:
        path = os.path.realpath(os.path.join(d, pf))
        if subprocess.run(["git", "-C", "/repo", "apply", "--check", path], stderr=subprocess.PIPE).returncode == 0:
            applied = pf
            subprocess.run(["git", "-C", "/repo", "apply", path], check=True)
            break
    if applied is None:
        row["result"] = "patch does not apply to the current tree"
        rows.append(row); print(row, flush=True); continue
    t = time.time()
    try:
        r = subprocess.run(["./run", prop, "--tier", "quick"], stdout=subprocess.PIPE, stderr=subprocess.STDOUT, text=True, timeout=3600)
        out, rc = r.stdout, r.returncode
    except subprocess.TimeoutExpired:
        out, rc = "", -1
    finally:
        subprocess.run(["git", "-C", "/repo", "checkout", "--", "."], check=True)
    fps = sorted(set(re.findall(r"fingerprint=(\S+)", out)))
    row.update(patch=applied, result="detected" if rc == 1 and "VIOLATION property=%s" % prop in out else "missed (exit %d)" % rc, fingerprints=fps[:6], seconds=round(time.time() - t))
    rows.append(row); print(row, flush=True)
old = []
if want and os.path.exists("seeded/rerun.json"):
    old = [r for r in json.load(open("seeded/rerun.json"))["rows"] if r["seed"] not in want]
json.dump({"comment": __doc__, "rows": sorted(old + rows, key=lambda r: r["seed"])}, open("seeded/rerun.json", "w"), indent=1)
print("detected %d / applicable %d / total %d" % (sum(r["result"] == "detected" for r in rows), sum("does not apply" not in r["result"] for r in rows), len(rows)))
